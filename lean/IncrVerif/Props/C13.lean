import IncrVerif.Proofs.Poison
import IncrVerif.Props.C08
import IncrVerif.Props.C10
/-!
# C13 — a panic escaping `stabilise` poisons the state, never exposing partial results

PROVED HERE (all about the executable model `Engine/{Core,Expert,Recompute}.lean`; a run is
`(m).run.run s : Except Panic α × State`, `.error p` is a panic and the state next to it is the state
at the panic point):

* `stabilise_refuses` — status ≠ `NotStabilising` ⇒ `stabilise` panics at the status assertion and the
  state is untouched (no user code runs).
* `status_frame_cascades`, `status_frame_expert`, `status_frame_recompute`, `status_frame_api`,
  `status_frame_phases` — NO function of the model other than `stabilise`/`stabiliseEnd` writes
  `State.status` (nor `cfg`, nor `alive`), on a normal return or on a panic.  (Proved as a Hoare triple
  pushed through every function, fuel inductions for the mutual cascades: `Proofs/Poison.lean`.)
* `stabilise_phase_by_phase`, `stabilise_phases`, `stabiliseEnd_phases` — `stabilise` is: assertion,
  `status := Stabilising`, propagation, `stabilise_end` up to the handlers, `status :=
  RunningOnUpdateHandlers`, the handlers, `status := NotStabilising`.
* `poisoned_by_propagation` — a panic out of a `stabilise` that was entered normally leaves status
  `Stabilising` or `RunningOnUpdateHandlers`, never `NotStabilising`.
* `poisoned_origin`, `poisoned_status_iff` — the precise split: `RunningOnUpdateHandlers` iff the panic
  was raised by the handler loop (after the line `status := RunningOnUpdateHandlers`); `Stabilising`
  iff it was raised by `add_new_observers`/`unlink_disallowed_observers`/the drain or by the part of
  `stabilise_end` before that line.
* `reads_refuse_after_propagation_panic`, `reads_refuse_after_propagation_phase_panic` — after such a
  panic with status `Stabilising` every observer read is `Err(CurrentlyStabilising)`.
* `poisoned_forever`, `poisoned_write_parks`, `poisoned_values_parked`, `reads_refuse_forever` — no
  sequence of `writeVar`/`subscribe`/`unsubscribe`/`disallowFutureUse`/`elabInstr`/`elabInstrM`/`setMaxHeightAllowed`
  calls (each may panic and be caught) un-poisons the state; `stabilise` keeps refusing; in a state
  poisoned with `Stabilising` a write only parks the value, no var cell's `value` ever changes again,
  and every read keeps refusing.
* `C13_partial_drain_complete`, `C13_partial_nothing_queued`, `C13_partial_handlers_after_drain` —
  DEBUG BUILDS: a drain that returns leaves the recompute heap empty, so update handlers (and reads in
  the `RunningOnUpdateHandlers` poisoned state) only ever see a completed propagation.
* `release_drain_counterexample` — in a release build `HeapWF` alone does NOT give drain completeness.

NOT PROVED HERE:

* drain completeness for release builds (`cfg.debug = false`): false for arbitrary `HeapWF` states
  (counterexample above); it would need the additional invariant "no queued node below
  `rch.lowerBound`" pushed through the whole model, and `HeapWF` itself is not inductive in release mode
  (`Proofs.release_counterexample`).
* that the state reached by a propagation panic is otherwise *consistent* (it is not: nodes recomputed
  before the panic keep their new values; the property is only that nothing can read them).
* nothing is claimed about the drivers `Engine/History.lean`, `Engine/Run.lean` (they write `alive`).
* `State.tryGetValue` only refuses in status `Stabilising`; in the state poisoned by a *handler* panic
  (`RunningOnUpdateHandlers`) reads succeed — propagation was complete then (last item above).
-/
namespace IncrVerif.Props.C13
open IncrVerif.Engine IncrVerif.Proofs IncrVerif.Proofs.Poison

/-! ## 1. a poisoned state refuses to stabilise -/

/-- If the status is not `NotStabilising` (a stabilisation is running, or an earlier one panicked),
`stabilise` panics at its first line, the status assertion, and the state — log, nodes, vars,
everything — is exactly as before: no user code ran. -/
theorem stabilise_refuses (env : Env) (fuel : Nat) (s : State) (h : s.status ≠ .notStabilising) :
    (stabilise env fuel).run.run s = (.error (.site "state:stabilise:status"), s) :=
  Poison.stabilise_refuses env fuel s h

example : exPropPanic.status ≠ .notStabilising := by decide +kernel
example : (stabilise exEnv 10).run.run exPropPanic
    = (.error (.site "state:stabilise:status"), exPropPanic) :=
  stabilise_refuses _ _ _ (by decide +kernel)

/-! ## 2. only `stabilise` and `stabiliseEnd` write the status

`Keeps x` is: for every state `s`, the state after running `x` from `s` — whether `x` returned or
panicked — has the status, the configuration and the liveness flag of `s`. -/

/-- `Keeps`, spelled out. -/
theorem keeps_iff {α} (x : M α) :
    Keeps x ↔ ∀ s : State, (x.run.run s).2.status = s.status ∧ (x.run.run s).2.cfg = s.cfg ∧
      (x.run.run s).2.alive = s.alive := Iff.rfl

/-- The heaps, height adjustment and the necessity/invalidation cascades of `Core.lean` never write
the status (nor `cfg`, `alive`), whether they return or panic, for every fuel. -/
theorem status_frame_cascades (env : Env) (fuel : Nat) :
    (∀ n, Keeps (becameNecessary env fuel n)) ∧
    (∀ c i p, Keeps (addParentWithoutAdjustingHeights env fuel c i p)) ∧
    (∀ n, Keeps (becameNecessaryPropagate env fuel n)) ∧
    (∀ n, Keeps (becameUnnecessary fuel n)) ∧
    (∀ n, Keeps (checkIfUnnecessary fuel n)) ∧
    (∀ n, Keeps (removeChildren fuel n)) ∧
    (∀ n, Keeps (invalidateNode fuel n)) ∧
    Keeps (propagateInvalidity fuel) ∧
    (∀ c i p, Keeps (stateAddParent env fuel c i p)) ∧
    (∀ m o n i, Keeps (changeChildBindRhs env fuel m o n i)) ∧
    (∀ oc op, Keeps (adjustHeights oc op fuel)) ∧
    (∀ oc op, Keeps (adjustHeightsLoop oc op fuel)) ∧
    (∀ oc op c p, Keeps (ensureHeightRequirement oc op c p)) ∧
    (∀ n, Keeps (markMapRefUnknown fuel n)) ∧
    (∀ n h, Keeps (setHeight n h)) ∧
    (∀ n, Keeps (rchInsert n)) ∧ (∀ n, Keeps (rchRemove n)) ∧ (∀ n, Keeps (rchIncreaseHeight n)) ∧
    Keeps rchRemoveMin ∧ Keeps rchMinHeight ∧
    (∀ n, Keeps (ahhAddUnlessMem n)) ∧ Keeps ahhRemoveMin ∧
    (∀ n, Keeps (handleAfterStabilisation n)) ∧
    (∀ n o v, Keeps (shouldCutoff env n o v)) :=
  ⟨fun n => FPres.keeps fun t => becameNecessary_fr t env fuel n,
   fun c i p => FPres.keeps fun t => addParentWithoutAdjustingHeights_fr t env fuel c i p,
   fun n => FPres.keeps fun t => becameNecessaryPropagate_fr t env fuel n,
   fun n => FPres.keeps fun t => becameUnnecessary_fr t fuel n,
   fun n => FPres.keeps fun t => checkIfUnnecessary_fr t fuel n,
   fun n => FPres.keeps fun t => removeChildren_fr t fuel n,
   fun n => FPres.keeps fun t => invalidateNode_fr t fuel n,
   FPres.keeps fun t => propagateInvalidity_fr t fuel,
   fun c i p => FPres.keeps fun t => stateAddParent_fr t env fuel c i p,
   fun m o n i => FPres.keeps fun t => changeChildBindRhs_fr t env fuel m o n i,
   fun oc op => FPres.keeps fun t => adjustHeights_fr t oc op fuel,
   fun oc op => FPres.keeps fun t => adjustHeightsLoop_fr t oc op fuel,
   fun oc op c p => FPres.keeps fun t => ensureHeightRequirement_fr t oc op c p,
   fun n => FPres.keeps fun t => markMapRefUnknown_fr t fuel n,
   fun n h => FPres.keeps fun t => setHeight_fr t n h,
   fun n => FPres.keeps fun t => rchInsert_fr t n,
   fun n => FPres.keeps fun t => rchRemove_fr t n,
   fun n => FPres.keeps fun t => rchIncreaseHeight_fr t n,
   FPres.keeps fun t => rchRemoveMin_fr t,
   FPres.keeps fun t => rchMinHeight_fr t,
   fun n => FPres.keeps fun t => ahhAddUnlessMem_fr t n,
   FPres.keeps fun t => ahhRemoveMin_fr t,
   fun n => FPres.keeps fun t => handleAfterStabilisation_fr t n,
   fun n o v => FPres.keeps fun t => shouldCutoff_fr t env n o v⟩

/-- the cascade really runs in the example (node 1, here forced necessary, and its child become
necessary and are queued) and the status is the one it started with -/
example :
    let s0 := { exGraph 0 0 with
      nodes := (exGraph 0 0).nodes.modify 1 fun x => { x with forceNecessary := true } }
    ((becameNecessaryPropagate exEnv 10 1).run.run s0).2.rch.length = 2 ∧
      ((becameNecessaryPropagate exEnv 10 1).run.run s0).2.status = s0.status := by
  intro s0
  exact ⟨by decide +kernel, ((status_frame_cascades exEnv 10).2.2.1 1 s0).1⟩

/-- The expert-node operations (`Expert.lean`) and the edge callbacks never write the status. -/
theorem status_frame_expert (env : Env) (fuel : Nat) :
    (∀ n, Keeps (expertMakeStale n)) ∧
    (∀ n c cb, Keeps (expertAddDependency env fuel n c cb)) ∧
    (∀ n d, Keeps (expertRemoveDependency fuel n d)) ∧
    (∀ n, Keeps (expertInvalidate fuel n)) ∧
    (∀ e edge, Keeps (edgeOnChange env e edge)) ∧
    (∀ e i, Keeps (runEdgeCallback env e i)) ∧
    (∀ e b, Keeps (observabilityChange e b)) :=
  ⟨fun n => FPres.keeps fun t => expertMakeStale_fr t n,
   fun n c cb => FPres.keeps fun t => expertAddDependency_fr t env fuel n c cb,
   fun n d => FPres.keeps fun t => expertRemoveDependency_fr t fuel n d,
   fun n => FPres.keeps fun t => expertInvalidate_fr t fuel n,
   fun e edge => FPres.keeps fun t => edgeOnChange_fr t env e edge,
   fun e i => FPres.keeps fun t => runEdgeCallback_fr t env e i,
   fun e b => FPres.keeps fun t => observabilityChange_fr t e b⟩

example : ((expertInvalidate 10 1).run.run (exGraph 0 0)).2.status = .notStabilising :=
  ((status_frame_expert exEnv 10).2.2.2.1 1 (exGraph 0 0)).1

/-- Recomputation — `recompute`, `recompute_one`, value changes, `child_changed`, the effects of user
closures (`runEffects`: var writes, reads, nested `stabilise` attempts, expert operations, user
panics), template elaboration in bind bodies (including memoised calls, the incremental-map operators and
the per-key driver) — never writes the status. -/
theorem status_frame_recompute (env : Env) (fuel : Nat) :
    (∀ n, Keeps (recompute env fuel n)) ∧
    (∀ n, Keeps (recomputeOne env fuel n)) ∧
    (∀ effs arg, Keeps (runEffects env fuel effs arg)) ∧
    (∀ e, Keeps (runEffectBasic env e)) ∧
    (∀ n v, Keeps (maybeChangeValue env fuel n v)) ∧
    (∀ n o b1 b2, Keeps (maybeChangeValueManual env fuel n o b1 b2)) ∧
    (∀ p c ci o, Keeps (childChanged env fuel p c ci o)) ∧
    (∀ p c, Keeps (parentIterCanRecomputeNow p c)) ∧
    (∀ tp v, Keeps (elabTemplate env tp v)) ∧
    (∀ loc v i, Keeps (elabInstr loc v i)) ∧
    Keeps tick ∧
    (∀ loc v i, Keeps (elabInstrM env loc v i)) ∧
    (∀ m key, Keeps (memoCall env m key)) ∧
    (∀ tp v init, Keeps (elabTemplateBase tp v init)) ∧
    (∀ op newMap, Keeps (perKeyDriver env fuel op newMap)) ∧
    (∀ e dv sv, Keeps (expertValue env e dv sv)) ∧
    (∀ g n σ old x new did, Keeps (withOldEvents env g n σ old x new did)) :=
  ⟨fun n => FPres.keeps fun t => recompute_fr t env fuel n,
   fun n => FPres.keeps fun t => recomputeOne_fr t env fuel n,
   fun effs arg => FPres.keeps fun t => runEffects_fr t env fuel effs arg,
   fun e => FPres.keeps fun t => runEffectBasic_fr t env e,
   fun n v => FPres.keeps fun t => maybeChangeValue_fr t env fuel n v,
   fun n o b1 b2 => FPres.keeps fun t => maybeChangeValueManual_fr t env fuel n o b1 b2,
   fun p c ci o => FPres.keeps fun t => childChanged_fr t env fuel p c ci o,
   fun p c => FPres.keeps fun t => parentIterCanRecomputeNow_fr t p c,
   fun tp v => FPres.keeps fun t => elabTemplate_fr t env tp v,
   fun loc v i => FPres.keeps fun t => elabInstr_fr t loc v i,
   FPres.keeps fun t => tick_fr t,
   fun loc v i => FPres.keeps fun t => elabInstrM_fr t env loc v i,
   fun m key => FPres.keeps fun t => memoCall_fr t env m key,
   fun tp v init => FPres.keeps fun t => elabTemplateBase_fr t tp v init,
   fun op newMap => FPres.keeps fun t => perKeyDriver_fr t env fuel op newMap,
   fun e dv sv => FPres.keeps fun t => expertValue_fr t env e dv sv,
   fun g n σ old x new did => FPres.keeps fun t => withOldEvents_fr t env g n σ old x new did⟩

/-- a user closure that panics, run while stabilising: the status stays `Stabilising` -/
example : panicOf ((runEffects exEnv 10 [.setVar 0 (.int 2), .panic]).run.run
      { exGraph 0 0 with status := .stabilising }).1 = some (.site "user") ∧
    ((runEffects exEnv 10 [.setVar 0 (.int 2), .panic]).run.run
      { exGraph 0 0 with status := .stabilising }).2.status = .stabilising :=
  ⟨by decide +kernel, ((status_frame_recompute exEnv 10).2.2.1 _ _ _).1⟩

/-- The public API other than `stabilise` — var writes, subscriptions, `disallow_future_use`,
`set_max_height_allowed`, node creation — never writes the status. -/
theorem status_frame_api :
    (∀ v f isSet, Keeps (writeVar v f isSet)) ∧
    (∀ v, Keeps (didSetVarWhileNotStabilising v)) ∧
    (∀ o hid, Keeps (subscribe o hid)) ∧
    (∀ o tok owner, Keeps (unsubscribe o tok owner)) ∧
    (∀ o, Keeps (disallowFutureUse o)) ∧
    (∀ newMax, Keeps (setMaxHeightAllowed newMax)) ∧
    (∀ k sc c, Keeps (createNode k sc c)) ∧
    (∀ v sc, Keeps (createVar v sc)) ∧
    (∀ body lhs, Keeps (createBind body lhs)) :=
  ⟨fun v f isSet => FPres.keeps fun t => writeVar_fr t v f isSet,
   fun v => FPres.keeps fun t => didSetVarWhileNotStabilising_fr t v,
   fun o hid => FPres.keeps fun t => subscribe_fr t o hid,
   fun o tok owner => FPres.keeps fun t => unsubscribe_fr t o tok owner,
   fun o => FPres.keeps fun t => disallowFutureUse_fr t o,
   fun newMax => FPres.keeps fun t => setMaxHeightAllowed_fr t newMax,
   fun k sc c => FPres.keeps fun t => createNode_fr t k sc c,
   fun v sc => FPres.keeps fun t => createVar_fr t v sc,
   fun body lhs => FPres.keeps fun t => createBind_fr t body lhs⟩

example : ((writeVar 0 (fun _ => .int 7)).run.run exHandlerPanic).2.status
    = exHandlerPanic.status := ((status_frame_api.1 0 _ false) exHandlerPanic).1

/-- The pieces of `stabilise` other than the three status writes: `add_new_observers`,
`unlink_disallowed_observers`, the heap drain (together: `propagate`), the part of `stabilise_end`
before the handlers (`stabiliseEndPrepare`), `run_all` and the handler loop followed by the collection
of the weak memo tables (`runHandlers`). -/
theorem status_frame_phases (env : Env) (fuel : Nat) :
    Keeps (addNewObservers env fuel) ∧
    Keeps (unlinkDisallowedObservers fuel) ∧
    Keeps (drainHeap env fuel) ∧
    Keeps (propagate env fuel) ∧
    Keeps (stabiliseEndPrepare env) ∧
    (∀ o n nu now, Keeps (runAll env fuel o n nu now)) ∧
    (∀ q, Keeps (runHandlers env fuel q)) :=
  ⟨FPres.keeps fun t => addNewObservers_fr t env fuel,
   FPres.keeps fun t => unlinkDisallowedObservers_fr t fuel,
   FPres.keeps fun t => drainHeap_fr t env fuel,
   propagate_keeps env fuel,
   stabiliseEndPrepare_keeps env,
   fun o n nu now => FPres.keeps fun t => runAll_fr t env fuel o n nu now,
   fun q => runHandlers_keeps env fuel q⟩

/-- the drain of the example panics in the closure of node 1 and leaves the status alone -/
example :
    let s0 := ((addNewObservers exEnv 10).run.run { exGraph 1 0 with status := .stabilising }).2
    panicOf ((drainHeap exEnv 10).run.run s0).1 = some (.site "user") ∧
      ((drainHeap exEnv 10).run.run s0).2.status = .stabilising := by
  intro s0
  refine ⟨by decide +kernel, ?_⟩
  rw [((status_frame_phases exEnv 10).2.2.1 s0).1]
  exact ((status_frame_phases exEnv 10).1 _).1

/-! ## 3. a panic escaping `stabilise` leaves the state poisoned -/

/-- `stabilise` is its phases in sequence (`propagate` is the three calls between the status write
and `stabilise_end`). -/
theorem stabilise_phases (env : Env) (fuel : Nat) :
    stabilise env fuel = (do
      assertM ((← get).status == .notStabilising) "state:stabilise:status"
      modify fun s => { s with status := .stabilising }
      propagate env fuel
      stabiliseEnd env fuel) :=
  Poison.stabilise_phases env fuel

/-- `stabilise_end` is: everything before the handlers (`stabiliseEndPrepare`: round number, deferred
var writes, dead vars, the handler queue), the status write, the handler loop and the (pure, panic-free)
collection of the weak memo tables (`runHandlers`), the status write. -/
theorem stabiliseEnd_phases (env : Env) (fuel : Nat) :
    stabiliseEnd env fuel = (do
      let queue ← stabiliseEndPrepare env
      modify fun s => { s with status := .runningOnUpdateHandlers }
      runHandlers env fuel queue
      modify fun s => { s with status := .notStabilising }) :=
  Poison.stabiliseEnd_phases env fuel

/-- A `stabilise` entered with status `NotStabilising`, phase by phase: a panic of a phase is the
outcome of the whole call with the state of that moment; the status is written exactly at the three
places shown. -/
theorem stabilise_phase_by_phase (env : Env) (fuel : Nat) (s : State)
    (h : s.status = .notStabilising) :
    (stabilise env fuel).run.run s =
      match (propagate env fuel).run.run { s with status := .stabilising } with
      | (.error p, s1) => (.error p, s1)
      | (.ok _, s1) =>
        match (stabiliseEndPrepare env).run.run s1 with
        | (.error p, s2) => (.error p, s2)
        | (.ok q, s2) =>
          match (runHandlers env fuel q).run.run { s2 with status := .runningOnUpdateHandlers } with
          | (.error p, s3) => (.error p, s3)
          | (.ok _, s3) => (.ok (), { s3 with status := .notStabilising }) :=
  stabilise_run env fuel s h

/-- the example without faults goes through all phases and ends `NotStabilising` -/
example : panicOf ((stabilise exEnv 10).run.run (exGraph 0 0)).1 = none ∧
    ((stabilise exEnv 10).run.run (exGraph 0 0)).2.status = .notStabilising :=
  ⟨by decide +kernel, by decide +kernel⟩

/-- Every panic of a `stabilise` entered with status `NotStabilising` comes from exactly one of:
the propagation phase; `stabilise_end` before the line `status := RunningOnUpdateHandlers`; the
handler loop after that line.  (`PanicOrigin` lists the three cases with the runs that witness
them.) -/
theorem poisoned_origin (env : Env) (fuel : Nat) (s : State) (p : Panic) (s' : State)
    (h : s.status = .notStabilising) (hr : (stabilise env fuel).run.run s = (.error p, s')) :
    PanicOrigin env fuel s p s' :=
  stabilise_panic_origin env fuel s p s' h hr

/-- If `stabilise`, entered with status `NotStabilising`, panics, the state it leaves behind is
poisoned: the status is `Stabilising` or `RunningOnUpdateHandlers`, never `NotStabilising`. -/
theorem poisoned_by_propagation (env : Env) (fuel : Nat) (s : State) (p : Panic) (s' : State)
    (h : s.status = .notStabilising) (hr : (stabilise env fuel).run.run s = (.error p, s')) :
    s'.status = .stabilising ∨ s'.status = .runningOnUpdateHandlers := by
  rcases (stabilise_panic_origin env fuel s p s' h hr).status with h1 | h1
  · exact Or.inl h1.1
  · exact Or.inr h1.1

/-- a closure panic and a handler panic, both escaping `stabilise` -/
example : ∃ p s', (stabilise exEnv 10).run.run (exGraph 1 0) = (.error p, s') ∧
    s'.status = .stabilising :=
  ⟨_, _, run_eq_error (by decide +kernel : panicOf _ = some (.site "user")), by decide +kernel⟩
example : ∃ p s', (stabilise exEnv 10).run.run (exGraph 0 1) = (.error p, s') ∧
    s'.status = .runningOnUpdateHandlers :=
  ⟨_, _, run_eq_error (by decide +kernel : panicOf _ = some (.site "user")), by decide +kernel⟩
example : exPropPanic.status = .stabilising ∨ exPropPanic.status = .runningOnUpdateHandlers :=
  poisoned_by_propagation exEnv 10 (exGraph 1 0) (.site "user") _ rfl
    (run_eq_error (by decide +kernel))

/-- The precise split.  After a panic of a `stabilise` entered with status `NotStabilising`:
the status is `RunningOnUpdateHandlers` exactly when propagation and the first part of
`stabilise_end` completed and the panic was raised by the handler loop, i.e. after the line
`status := RunningOnUpdateHandlers`; it is `Stabilising` exactly when the panic was raised before that
line — by `add_new_observers`, `unlink_disallowed_observers`, the heap drain, or the first part of
`stabilise_end`. -/
theorem poisoned_status_iff (env : Env) (fuel : Nat) (s : State) (p : Panic) (s' : State)
    (h : s.status = .notStabilising) (hr : (stabilise env fuel).run.run s = (.error p, s')) :
    (s'.status = .runningOnUpdateHandlers ↔
      ∃ s1 q s2,
        (propagate env fuel).run.run { s with status := .stabilising } = (.ok (), s1) ∧
        (stabiliseEndPrepare env).run.run s1 = (.ok q, s2) ∧
        (runHandlers env fuel q).run.run { s2 with status := .runningOnUpdateHandlers }
          = (.error p, s')) ∧
    (s'.status = .stabilising ↔
      ((propagate env fuel).run.run { s with status := .stabilising } = (.error p, s') ∨
       ∃ s1, (propagate env fuel).run.run { s with status := .stabilising } = (.ok (), s1) ∧
          (stabiliseEndPrepare env).run.run s1 = (.error p, s'))) := by
  have ho := stabilise_panic_origin env fuel s p s' h hr
  constructor
  · constructor
    · intro hs
      rcases ho.status with h1 | h1
      · rw [h1.1] at hs; cases hs
      · exact h1.2
    · rintro ⟨s1, q, s2, -, -, h3⟩
      exact ((runHandlers_keeps env fuel q).of_run h3).1
  · constructor
    · intro hs
      cases ho with
      | propagation h1 => exact Or.inl h1
      | endPrepare s1 h1 h2 => exact Or.inr ⟨s1, h1, h2⟩
      | handlers s1 q s2 h1 h2 h3 =>
        rw [((runHandlers_keeps env fuel q).of_run h3).1] at hs; cases hs
    · rintro (h1 | ⟨s1, h1, h2⟩)
      · exact ((propagate_keeps env fuel).of_run h1).1
      · exact (((stabiliseEndPrepare_keeps env).of_run h2).1).trans
          ((propagate_keeps env fuel).of_run h1).1

/-- in the handler-panic example both sides of the first equivalence hold -/
example : exHandlerPanic.status = .runningOnUpdateHandlers ∧
    ∃ s1 q s2,
      (propagate exEnv 10).run.run { exGraph 0 1 with status := .stabilising } = (.ok (), s1) ∧
      (stabiliseEndPrepare exEnv).run.run s1 = (.ok q, s2) ∧
      (runHandlers exEnv 10 q).run.run { s2 with status := .runningOnUpdateHandlers }
        = (.error (.site "user"), exHandlerPanic) := by
  have hr : (stabilise exEnv 10).run.run (exGraph 0 1) = (.error (.site "user"), exHandlerPanic) :=
    run_eq_error (by decide +kernel)
  have hs : exHandlerPanic.status = .runningOnUpdateHandlers := by decide +kernel
  exact ⟨hs, (poisoned_status_iff exEnv 10 _ _ _ rfl hr).1.1 hs⟩

/-! ## 4. reads refuse after a propagation panic -/

/-- After a panic of a `stabilise` (entered normally, on a live engine) that left status
`Stabilising` — by `poisoned_status_iff`: any panic raised before the update handlers start — every
observer read returns `Err(CurrentlyStabilising)`: the partially propagated values are not
readable.  (C10 `read_stabilising`; liveness is preserved by `stabilise`.) -/
theorem reads_refuse_after_propagation_panic (env : Env) (fuel : Nat) (s : State) (p : Panic)
    (s' : State) (ha : s.alive = true)
    (hr : (stabilise env fuel).run.run s = (.error p, s')) (hs : s'.status = .stabilising) :
    ∀ o, s'.tryGetValue env o = .error .currentlyStabilising := by
  intro o
  have h := (stabilise_cfg_alive env fuel s).2
  rw [hr] at h
  exact C10.read_stabilising env s' o (h.trans ha) hs

/-- The same, from the phase: if the propagation phase (`add_new_observers`,
`unlink_disallowed_observers`, heap drain) of a `stabilise` entered normally on a live engine panics,
that panic is the outcome of `stabilise` and every observer read in the resulting state returns
`Err(CurrentlyStabilising)`. -/
theorem reads_refuse_after_propagation_phase_panic (env : Env) (fuel : Nat) (s : State) (p : Panic)
    (s' : State) (h : s.status = .notStabilising) (ha : s.alive = true)
    (h1 : (propagate env fuel).run.run { s with status := .stabilising } = (.error p, s')) :
    (stabilise env fuel).run.run s = (.error p, s') ∧
      ∀ o, s'.tryGetValue env o = .error .currentlyStabilising := by
  have hr : (stabilise env fuel).run.run s = (.error p, s') := by
    rw [stabilise_run env fuel s h, h1]
  exact ⟨hr, reads_refuse_after_propagation_panic env fuel s p s' ha hr
    ((propagate_keeps env fuel).of_run h1).1⟩

/-- node 0 of the example was recomputed before the panic (it has a value now), observer 0 is in
use, and still the read refuses -/
example : (exPropPanic.nodeD 0).value = some (.int 1) ∧
    (exPropPanic.observers[0]?).map (·.state) = some .inUse ∧
    exPropPanic.tryGetValue exEnv 0 = .error .currentlyStabilising :=
  ⟨by decide +kernel, by decide +kernel,
   reads_refuse_after_propagation_panic exEnv 10 (exGraph 1 0) (.site "user") _ rfl
     (run_eq_error (by decide +kernel)) (by decide +kernel) 0⟩

/-! ## 5. poisoned forever -/

/-- From a poisoned state, whatever sequence of the other API calls is made — `writeVar`,
`subscribe`, `unsubscribe`, `disallowFutureUse`, `elabInstr [] v i` / `elabInstrM env [] v i` (node
creation, the latter including calls of memoised functions), `setMaxHeightAllowed`; each may return or panic and be caught (`runCalls` continues from the state at
the panic) — the status is unchanged, so the state is still poisoned and `stabilise` still panics at
its status assertion without touching anything. -/
theorem poisoned_forever (env : Env) (fuel : Nat) (s : State) (h : s.status ≠ .notStabilising)
    (cs : List ApiCall) :
    (runCalls cs s).status = s.status ∧
      (stabilise env fuel).run.run (runCalls cs s)
        = (.error (.site "state:stabilise:status"), runCalls cs s) := by
  have hs := (runCalls_frame cs s).1
  exact ⟨hs, Poison.stabilise_refuses env fuel _ (by rw [hs]; exact h)⟩

/-- a write, a subscription, a node creation and another write on the poisoned example: the calls do
change the state (the deferred-writes stack, the handler list, the node array) but not the status -/
example :
    let cs := [ApiCall.writeVar 0 (fun _ => .int 9) true, .subscribe 0 0, .elabInstr .unit (.const .unit),
      .writeVar 0 (fun x => x.addInt 1 7) false]
    (runCalls cs exPropPanic).nodes.size = 3 ∧ (runCalls cs exPropPanic).setDuringStab = [0] ∧
      (runCalls cs exPropPanic).status = .stabilising ∧
      (stabilise exEnv 10).run.run (runCalls cs exPropPanic)
        = (.error (.site "state:stabilise:status"), runCalls cs exPropPanic) := by
  intro cs
  have h := poisoned_forever exEnv 10 exPropPanic (by decide +kernel) cs
  exact ⟨by decide +kernel, by decide +kernel, h.1.trans (by decide +kernel), h.2⟩

/-- A var write in a state poisoned with status `Stabilising` never panics and only parks the new
value in the cell's `pending` slot (C08 `write_inside_run`): the cell's `value` — what every reader
and every recomputation would see — is unchanged, nothing but `vars[v]` and the deferred-writes stack
changes, and (by `poisoned_forever`) no `stabilise_end` will ever apply it. -/
theorem poisoned_write_parks (v : Nat) (f : Val → Val) (isSet : Bool) (s : State) (vc : VarCell)
    (hv : s.vars[v]? = some vc) (hst : s.status = .stabilising) :
    (writeVar v f isSet).run.run s = (.ok (vc.pending.getD vc.value), deferred v vc f s) ∧
      (deferred v vc f s).vars[v]?
        = some { vc with pending := some (f (vc.pending.getD vc.value)) } ∧
      (deferred v vc f s).status = .stabilising ∧
      (deferred v vc f s).nodes = s.nodes ∧ (deferred v vc f s).rch = s.rch ∧
      (∀ w, w ≠ v → (deferred v vc f s).vars[w]? = s.vars[w]?) := by
  have h := C08.deferred_facts v vc f s hv
  exact ⟨C08.write_inside_run v f isSet s vc hv hst, h.1, h.2.2.2.2.2.2.1.trans hst, h.2.2.1,
    h.2.2.2.1, h.2.2.2.2.2.2.2.2.2.2⟩

example : (((writeVar 0 (fun _ => .int 9) true).run.run exPropPanic).2.vars[0]?).map
      (fun c => (c.value, c.pending)) = some (.int 1, some (.int 9)) := by
  have h0 : (exPropPanic.vars[0]?).map (fun c => (c.value, c.pending)) = some (.int 1, none) := by
    decide +kernel
  rcases hv : exPropPanic.vars[0]? with _ | vc
  · rw [hv] at h0; cases h0
  · rw [hv] at h0
    simp only [Option.map_some, Option.some.injEq, Prod.mk.injEq] at h0
    have h := poisoned_write_parks 0 (fun _ => .int 9) true exPropPanic vc hv (by decide +kernel)
    rw [h.1, h.2.1, Option.map_some, h0.1]

/-- From a state poisoned with status `Stabilising`, after ANY sequence of the other API calls every
var cell that existed still holds the same `value`: all writes are parked, none is ever applied. -/
theorem poisoned_values_parked (s : State) (hs : s.status = .stabilising) (cs : List ApiCall)
    (v : Nat) (vc : VarCell) (hv : s.vars[v]? = some vc) :
    ∃ vc', (runCalls cs s).vars[v]? = some vc' ∧ vc'.value = vc.value :=
  runCalls_value cs s v vc hs hv

example :
    let cs := [ApiCall.writeVar 0 (fun _ => .int 9) true, .subscribe 0 0, .elabInstr .unit (.var (.int 3)),
      .writeVar 0 (fun x => x.addInt 1 7) false]
    ((runCalls cs exPropPanic).vars[0]?).map (fun c => (c.value, c.pending))
      = some (.int 1, some (.int 3)) ∧ (runCalls cs exPropPanic).vars.size = 2 := by
  intro cs
  exact ⟨by decide +kernel, by decide +kernel⟩

/-- From a live state poisoned with status `Stabilising` (any panic before the update handlers), after
ANY sequence of the other API calls every observer read still returns `Err(CurrentlyStabilising)`:
the partially propagated values never become readable. -/
theorem reads_refuse_forever (env : Env) (s : State) (hs : s.status = .stabilising)
    (ha : s.alive = true) (cs : List ApiCall) (o : Nat) :
    (runCalls cs s).tryGetValue env o = .error .currentlyStabilising := by
  have h := runCalls_frame cs s
  exact C10.read_stabilising env _ o (h.2.2.trans ha) (h.1.trans hs)

example : (runCalls [ApiCall.writeVar 0 (fun _ => .int 9) true, .disallowFutureUse 0, .subscribe 0 0]
    exPropPanic).tryGetValue exEnv 0 = .error .currentlyStabilising :=
  reads_refuse_forever exEnv exPropPanic (by decide +kernel) (by decide +kernel) _ 0

/-! ## 6. handlers only run after propagation is complete (debug builds) -/

/-- DEBUG BUILDS.  If the heap drain returns normally, the recompute heap is empty (`length = 0`).
(No well-formedness hypothesis is needed: with debug assertions on, `remove_min` answers "empty" only
when `length = 0`; the bucket scan cannot stop at an empty bucket, and running off the end trips a
debug assertion.  `cfg.debug` is never written.) -/
theorem C13_partial_drain_complete (env : Env) (fuel : Nat) (s s' : State)
    (hd : s.cfg.debug = true) (hr : (drainHeap env fuel).run.run s = (.ok (), s')) :
    s'.rch.length = 0 :=
  drainHeap_empty_run env fuel s s' hd hr

/-- DEBUG BUILDS, from a well-formed heap (C11): after a drain that returned the heap is still
well-formed, every bucket is empty and no node is marked as queued. -/
theorem C13_partial_nothing_queued (env : Env) (fuel : Nat) (s s' : State) (hwf : HeapWF s)
    (hd : s.cfg.debug = true) (hr : (drainHeap env fuel).run.run s = (.ok (), s')) :
    HeapWF s' ∧ s'.rch.length = 0 ∧
      (∀ (k : Nat) (hk : k < s'.rch.queues.size), s'.rch.queues[k] = []) ∧
      ∀ n, n < s'.nodes.size → (s'.nodeD n).heightInRch = -1 :=
  drainHeap_nothing_queued env fuel s s' hwf hd hr

/-- DEBUG BUILDS.  In a `stabilise` entered normally, whenever `stabilise_end` gets to run at all —
in particular whenever an update handler runs, and whenever a handler panic leaves the readable
`RunningOnUpdateHandlers` state — the propagation phase had returned with an empty recompute heap. -/
theorem C13_partial_handlers_after_drain (env : Env) (fuel : Nat) (s : State) (p : Panic)
    (s' : State) (h : s.status = .notStabilising) (hd : s.cfg.debug = true)
    (hr : (stabilise env fuel).run.run s = (.error p, s'))
    (hs : s'.status = .runningOnUpdateHandlers) :
    ∃ s1 q s2,
      (propagate env fuel).run.run { s with status := .stabilising } = (.ok (), s1) ∧
      s1.rch.length = 0 ∧
      (stabiliseEndPrepare env).run.run s1 = (.ok q, s2) ∧
      (runHandlers env fuel q).run.run { s2 with status := .runningOnUpdateHandlers }
        = (.error p, s') := by
  obtain ⟨s1, q, s2, h1, h2, h3⟩ := (poisoned_status_iff env fuel s p s' h hr).1.1 hs
  exact ⟨s1, q, s2, h1, propagate_empty_run env fuel { s with status := .stabilising } s1 hd h1, h2, h3⟩

example : (exGraph 0 1).cfg.debug = true ∧ exHandlerPanic.status = .runningOnUpdateHandlers ∧
    exHandlerPanic.rch.length = 0 ∧ (exHandlerPanic.tryGetValue exEnv 0).toOption = some (.int 1) :=
  ⟨rfl, by decide +kernel, by decide +kernel, by decide +kernel⟩

example :
    let s0 := ((addNewObservers exEnv 10).run.run { exGraph 0 0 with status := .stabilising }).2
    s0.rch.length = 2 ∧ ((drainHeap exEnv 10).run.run s0).2.rch.length = 0 := by
  intro s0
  refine ⟨by decide +kernel, ?_⟩
  exact C13_partial_drain_complete exEnv 10 s0 _ (by decide +kernel)
    (run_eq_ok (by decide +kernel))

/-- RELEASE BUILDS: the debug hypothesis cannot simply be dropped.  `exReleaseHeap` has a
well-formed recompute heap (C11's `HeapWF`) holding one node, but its `lower_bound` is above that
node; `drainHeap` returns normally and the node is still queued. -/
theorem release_drain_counterexample :
    HeapWF exReleaseHeap ∧ exReleaseHeap.cfg.debug = false ∧
      panicOf ((drainHeap exEnv 10).run.run exReleaseHeap).1 = none ∧
      ((drainHeap exEnv 10).run.run exReleaseHeap).2.rch.length = 1 :=
  Poison.release_drain_counterexample

end IncrVerif.Props.C13
