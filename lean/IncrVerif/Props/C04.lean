import IncrVerif.Props.C07
import IncrVerif.Props.C08
import IncrVerif.Props.C09
import IncrVerif.Props.C10
import IncrVerif.Props.C19
/-!
# C04 — well-formed programs never panic, in debug or release builds  (`C04_partial`)

The full statement is: for every well-formed history no API action of `run` ends in a panic, for both
values of `cfg.debug`.  What is PROVED so far is the part of it that concerns the calls that do not
enter the propagation cascade, for every state of the model (no reachability assumption):

* `disallow_future_use`, `unsubscribe` (own token), `subscribe` (live observer) never panic;
* every var write issued while stabilising never panics; a var write outside stabilise does not panic
  in release builds unless the handle's watch node was abandoned or its height is off the heap;
* node construction (`Node::create`) never panics;
* the update-handler table never hands `Unnecessary` to a subscription (the `panic!` in
  `Observer::try_subscribe`'s wrapper is unreachable);
* `set_height` panics exactly when the height exceeds the configured maximum.

What is NOT yet proved (covered by the differential run and `holds_C04` on both build profiles only):
the panic sites inside `stabilise` (necessity cascades, adjust-heights, invalidation, recompute),
i.e. the families "value present", "weak upgrade", "index arithmetic", "heap discipline",
"scheduling assertions" of DESIGN.md Appendix D.
-/
namespace IncrVerif.Props.C04
open IncrVerif.Engine

/-- `Observer::disallow_future_use` / dropping the last handle never panics -/
theorem C04_partial_disallow (s : State) (o : Nat) (ob : ObsRec) (h : s.observers[o]? = some ob) :
    ∃ s', (disallowFutureUse o).run.run s = (.ok (), s') :=
  (C10.disallow_spec s o ob h).imp fun _ hh => hh.1

/-- `Observer::unsubscribe` with a token of the same observer never panics and never fails -/
theorem C04_partial_unsubscribe (s : State) (o token : Nat) (ob : ObsRec)
    (h : s.observers[o]? = some ob) :
    ∃ s', (unsubscribe o token o).run.run s = (.ok (.ok ()), s') :=
  C10.unsubscribe_never_panics s o token ob h

/-- `Observer::try_subscribe` on a live observer never panics -/
theorem C04_partial_subscribe (s : State) (o hid : Nat) (ob : ObsRec) (ha : s.alive = true)
    (h : s.observers[o]? = some ob) (hst : ob.state = .created ∨ ob.state = .inUse)
    (hn : ob.node < s.nodes.size) :
    ∃ s', (subscribe o hid).run.run s = (.ok (.ok s.nextToken), s') :=
  (C10.subscribe_ok s o hid ob ha h hst hn).imp fun _ hh => hh.1

/-- a var write from inside a node function (status `Stabilising`) never panics -/
theorem C04_partial_write_inside (v : Nat) (f : Val → Val) (isSet : Bool) (s : State) (vc : VarCell)
    (hv : s.vars[v]? = some vc) (hst : s.status = .stabilising) :
    ((writeVar v f isSet).run.run s).1 = .ok (vc.pending.getD vc.value) := by
  rw [C08.write_inside_run v f isSet s vc hv hst]

/-- a var write outside stabilise does not panic in a release build, for a live handle whose watch
node is either invalidated (D14), not needed, already queued, or at a height the heap has a bucket
for -/
theorem C04_partial_write_outside (v : Nat) (f : Val → Val) (isSet : Bool) (s : State) (vc : VarCell)
    (hv : s.vars[v]? = some vc) (hst : s.status ≠ .stabilising)
    (hl : vc.linked = true) (hd : s.cfg.debug = false)
    (hq : (s.nodeD vc.node).valid = false ∨ s.isNecessary vc.node = false ∨
      (s.nodeD vc.node).inRch = true ∨
      (0 ≤ (s.nodeD vc.node).height ∧ (s.nodeD vc.node).height ≤ s.rch.maxAllowed)) :
    ((writeVar v f isSet).run.run s).1 = .ok vc.value :=
  C08.write_outside_no_panic v f isSet s vc hv hst hl hd hq

/-- D14: a var write outside stabilise through a live handle whose watch node has been invalidated
does not panic in EITHER build profile (no hypothesis on `s.cfg.debug`) -/
theorem C04_partial_write_invalid_watch (v : Nat) (f : Val → Val) (isSet : Bool) (s : State)
    (vc : VarCell) (hv : s.vars[v]? = some vc) (hst : s.status ≠ .stabilising)
    (hl : vc.linked = true) (hinv : (s.nodeD vc.node).valid = false) :
    ((writeVar v f isSet).run.run s).1 = .ok vc.value := by
  obtain ⟨s', h, -⟩ := C08.write_outside_invalid_watch v f isSet s vc hv hst hl hinv
  rw [h]

/-- node construction never panics -/
theorem C04_partial_create (s : State) (kind : Kind) (scope : Scope) (cutoff : CutoffK) :
    ∃ s', (createNode kind scope cutoff).run.run s = (.ok s.nodes.size, s') :=
  (C07.createNode_appends s kind scope cutoff).imp fun _ hh => hh.1

/-- a subscription is never handed `NodeUpdate::Unnecessary` (which its wrapper turns into a panic):
the node of an attached observer is never classified so -/
theorem C04_partial_no_unnecessary (env : Env) (s : State) (n : Nat)
    (h : (s.nodeD n).observers ≠ []) : s.nodeUpdate env n ≠ .unnecessary :=
  C09.nodeUpdate_ne_unnecessary env s n h

/-- the height panic fires exactly above the limit (so a well-formed program, whose heights stay
within the limit, never sees it) -/
theorem C04_partial_height (n : Nat) (h : Int) (s : State) (inv : s.maxHeightSeen ≤ s.ahh.maxAllowed)
    (hh : h ≤ s.ahh.maxAllowed) : ((setHeight n h).run.run s).1 = .ok () :=
  ((C19.setHeight_exact n h s inv).2).mpr hh

/-- non-vacuity: a concrete state on which the hypotheses of the observer lemmas hold -/
example : ∃ s', (disallowFutureUse 0).run.run
    ({ (State.init 4) with observers := #[{ node := 0 }] }) = (.ok (), s') :=
  C04_partial_disallow _ 0 { node := 0 } rfl

end IncrVerif.Props.C04
