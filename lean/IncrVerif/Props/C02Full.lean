import IncrVerif.Proofs.OnceF4
import IncrVerif.Proofs.OnceF6
import IncrVerif.Proofs.OnceF7
import IncrVerif.Proofs.OnceF10
import IncrVerif.Proofs.OnceF13
/-!
# C02 (glitch-freedom: at most once per `stabilise`, on final inputs) for the COMBINED fragment of `C01Full`

Property C02: *within a single `stabilise` call every node is evaluated at most once (its map, bind or map_with_old function runs once, its fold function makes a single
pass), and the argument values the function receives are the values its inputs have at the end of that `stabilise`.*

`Props/C02` proves the LOCAL part (one `recomputeOne` stamps the node, invokes the node's function exactly once on the values the inputs have at that moment, leaves the node
not stale); `C01Global`/`C01History` (static), `C03Order` (binds), `C17History` (map_ref / map_with_old, one extension each) prove "no node runs twice".  This file proves the
GLOBAL part for the combined fragment of `Props/C01Full`.

## THE FRAGMENT (exactly the one of `C01Full`: `FullH.HistFull env sp 0 acts`, `FullH.EnvS env sp`, `FullH.FirstFn env`)
binds (incl. nested, any depth) + `map_ref` (chains) + `map_with_old` (machines with the contract `FullH.Good`) + `depend_on` + the `cutoff n never/eq` action + the static
core (`const`, `var`, pure `map` 1…6, `zip`, `fold`), observers created / cloned / dropped / disallowed, the five variable writes, in any interleaving.  See the header of
`Props/C01Full.lean` for the precise definitions and for what is NOT in the fragment (user cutoffs, `cutoff` inside closures, incremental-map operators, expert nodes, effects, …).

## PROVED HERE (for the model, both `cfg.debug` settings; partial correctness: each statement assumes that the call / the history returns `.ok`)

The observable is the model's own: `Sched.drainTrace env fuel t2` = the list of nodes on which `drainHeap env fuel`, started in `t2`, invokes `recomputeOne` (pops and
direct-recompute chains, in order), and `TidyH.drainSteps env fuel t2` = the same list with the state each call starts in (`drainSteps_fst`: first components = `drainTrace`).
`t2` is THE state in which the drain of the `stabilise` in question starts: it is tied to the run by the four phase equations (`stabilise` = status := stabilising;
`addNewObservers`; `unlinkDisallowedObservers`; `drainHeap`; `stabiliseEnd`).

* (a) AT MOST ONCE — `drain_once` (a successful `drainHeap` from the drain invariant `FullH.DInvF`), `stabilise_once` (a successful `stabilise` from the invariant between API
  actions `QInvFE`, which holds in every state a history of the fragment reaches: `C01Full.history_inv`), `history_c02` (at every `stabilise` of every history of the fragment
  run from `State.init N d`) — `OnceF.OnceStab env fuel s s'`:
  - `(drainTrace env fuel t2).Nodup`: NO NODE IS HANDED TO `recomputeOne` TWICE;
  - no node carries the stamp of this round when the drain starts (`∀ m, (t2.nodeD m).recomputedAt < s.stabNum`), every node of the trace carries it in the final state
    (`(s'.nodeD m).recomputedAt = s.stabNum`) and IS STILL VALID there: no node of a generation that a bind's change detector invalidates during this `stabilise` was run in
    it, neither before nor after the change detector;
  - at the moment a node is handed to `recomputeOne` (`p ∈ drainSteps`: node `p.1`, state `p.2`) it is necessary, valid, not in the recompute heap, not yet stamped
    (`recomputedAt < s.stabNum`), and the round number is still `s.stabNum`.
  With the local step theorems of `Props/C02` (`step_map_invokes_once`: one `recomputeOne` = one invocation of the node's function) this is "every node function runs at most
  once per `stabilise`".
* (b) FINAL INPUTS — `stabilise_final_inputs` (from `C01Full.StabF.fresh`), part of `stabilise_c02` / `history_c02` — `OnceF.FinalInputs s'`: in the final state every necessary
  node is valid, not stale, HAS been computed (`recomputedAt ≠ -1`; a `var` node: not before the last write of its cell) and NONE OF ITS CHILDREN CHANGED AFTER IT LAST RAN:
  `changedAt(child) ≤ recomputedAt(node)` for every `child ∈ s'.children node` (the model's `try_fold_children`: map/fold arguments, the input of a map_ref / map_with_old node,
  the lhs of a change detector, the change detector and the CURRENT rhs of a bind's main node).  So the values the node's function received when it last ran (`Props/C02`: the
  values the inputs had at that moment) are the values of inputs that did not change since — for a node that did not run in this round as well as for one that did (its inputs'
  `changedAt` are `≤` the stamp of this round, and by (a) the node did not run a second time).
* (b') INPUTS BEFORE OUTPUTS — `stabilise_order`, `history_order` — `OnceF.OrderStab env fuel s s'`: in the list of steps of the drain (`drainSteps env fuel t2`, same `t2`),
  whenever a step `p` comes before a step `q` (`List.Pairwise`), the node of `q` is NOT A STABLE CHILD of the node of `p`: `OnceF.SKid p.2 p.1 c` = `c ∈ p.2.children p.1` (the child
  list in the state in which `p.1` was handed to `recomputeOne`), except the CURRENT RHS of a bind's main node (kept: every argument of a map / fold, the input of a map_ref /
  map_with_old node, the lhs of a change detector, the change detector of a main node).  So no such input of a node is recomputed after the node in the same `stabilise`.
* (b'') FINAL INPUTS, VALUE FORM — `stabilise_inputs`, `history_inputs` — `OnceF.InputsStab env fuel s s'`: for every step `p` of the drain (node `p.1` handed to `recomputeOne` in state
  `p.2`) and every stable child `c` of `p.1` in `p.2`: `c` is an existing node of `p.2`, and THE VALUE `c` STORES IN THE FINAL STATE `s'` IS THE VALUE IT STORED WHEN `p.1` RAN
  (`(s'.nodeD c).value = (p.2.nodeD c).value`), unless it stores nothing at the end (`(s'.nodeD c).value = none`: `invalidate_node` erased it because `c` was invalidated later in
  this drain — or it stored nothing when `p.1` ran either: a map_ref node never stores a value).  For a
  child that is not a map_ref node the stored value is what `recomputeOne` reads (`valueUnwrap` = `State.value` = the `value` field of a valid non-map_ref node), so: the arguments
  a node's function received from its stable, non-map_ref inputs are the values these inputs hold at the end of the `stabilise` (if they still hold one).  `recomputeOne_value_frame`: the
  frame behind it, for every kind of node and every outcome of the call.
* NON-VACUITY (kernel-checked): the theorem applies at each of the seven `stabilise`s of `C01Full`'s example history `exHistF` (bind whose closure builds a map_ref chain, two
  `map_with_old` machines, a nested bind) and at each of the five of `exHistG` (`depend_on`, `cutoff never`); the drain traces of these twelve `stabilise`s are computed by the
  kernel (`exHistF_traces`, `exHistG_traces`): e.g. the first round of `exHistF` runs 14 distinct nodes, the round after writing only the third component of the pair variable runs
  `[0, 5, 12, 13, 10, 11, 4]` (the map_ref node 5 runs, its projection is unchanged and its parents 6, 7 do NOT run), the round in which the lhs flips runs `[1, 3, 14, 4]`
  (no node of the dying generation 5…13).  (b') and (b'') apply at the same twelve `stabilise`s (`exHistF_order`, `exHistF_inputs`, …); the child lists of the first generation of
  `exHistF` are kernel-checked (`exHistF_children`), so `SKid` is not vacuous there.

## METHOD (`Proofs/OnceF1…16`, 1.45 kLoC)
`Sched.drain_once`/`BindH.drain_onceB` redone over `FullH.DInvF` (`OnceF2`: the ghost of the invariant changes from step to step, so invariant, frame and trace facts are
bundled in one existential statement `RunF`): a node that runs has `recomputedAt < stabNum` (`BindH.DInv.cur_facts` of the virtual state), `= stabNum` and valid afterwards
(`FullH.recomputeOne_full`), and the progress frame `BindH.FrameB` of the virtual states keeps stamp and validity of a node stamped in this round; `virt` changes neither
stamps nor validity nor necessity.  `OnceF3`: the prefix of `FullH.stabilise_full` with `drain_onceF` in place of `drainHeap_full`.  `OnceF1`: unfolding of `State.isStale`.
`OnceF8…10` (order): a node that ran keeps stamp and validity (`FrameB.ran`), existing nodes keep their kind and bind records their lhs (`NestH.N7k.BKey`, kept by every engine
function), so the edge to a stable child still exists when a later step runs, and `BindH.DInv.fresh` (nothing above the current node has run in this round) excludes that the later
step is on that child.
`OnceF11…16` (values; `OnceF11`, `14`, `15`, `16` = the `Pres` ladder, `OnceF12`, `13` = the composition): THE VALUE FRAME `OnceF.VR n` — one `recomputeOne env fuel n` changes the stored value of no other existing node except to erase it — is kept by every function
reachable from `recomputeOne env fuel n`, for ALL kinds of nodes and every outcome (a syntactic `Step.Pres` ladder, port of `NestH122`: the only writes of a `value` field are
`maybe_change_value` and the map_ref / map_with_old branches on the node itself, `invalidate_node` (`none`), node creation); composed along the steps after `p`, none of which is on
`c` by (b') and acyclicity.

## ASSUMED / NOT PROVED HERE
* Partial correctness only (as `C01Full`).  Everything `C01Full` lists as outside the fragment is outside here.
* (b'') speaks about the `value` FIELD of the children: for a map_ref child (which stores nothing and is read through: `State.value` follows the chain to the first non-map_ref
  node) it says nothing; that the node a chain ends in does not run later either follows from `DInv.fresh` (which is about all descendants) but is not stated here.  (b') and (b'') do
  NOT cover the edge from a bind's main node to its CURRENT right-hand side (it is re-pointed by the change detector's run; that the rhs cannot be re-pointed after the main node ran
  follows informally from (b') for the change detector, but the frame fact "the `rhs` field changes only in the change detector's own step" is not proved here).  NOT proved either:
  that a node stamped in this round is in the trace (converse of (a)'s second clause).  The link "arguments received = `value` fields of the children at the moment of the call" is the
  local theorem `Props/C02.step_map_invokes_once` (the `inv` event carries these values), not re-proved here for every kind.
* The number of function invocations per `recomputeOne` (exactly one `inv` event; a fold makes one pass) is the local theorem of `Props/C02`, proved there for the kinds of
  `Step.Computes`; it is not re-proved here for change detectors and map_ref nodes (which invoke the closure once / no user function).
-/
namespace IncrVerif.Props.C02Full
open IncrVerif.Engine IncrVerif.Driver IncrVerif.Proofs IncrVerif.Proofs.Sched IncrVerif.Proofs.TidyH IncrVerif.Proofs.FullH IncrVerif.Proofs.OnceF

/-- **(a) the drain.** From the drain invariant of the combined fragment a successful `drainHeap` hands no node to `recomputeOne` twice; each node of the trace was not stamped
before (virtual state = actual stamps), is stamped and still valid at the end (`BindH.RanOnceB`); every call happens in a state satisfying the drain invariant with that node as the
current node; the invariant holds at the end (for new ghost values) and the heap is empty. -/
theorem drain_once {env : Env} {sp : Nat → Val → Val} (E : EnvS env sp) (hF : FirstFn env) {fuel : Nat} {t s s' : State} {g : Nat → Option Val}
    (D : DInvF env sp t s g none) (h : (drainHeap env fuel).run.run s = (.ok (), s')) :
    ∃ g', DInvF env sp t s' g' none ∧ s'.rch.length = 0 ∧
      (drainTrace env fuel s).Nodup ∧
      (∀ m, m ∈ drainTrace env fuel s → BindH.RanOnceB (virt g s) (virt g' s') m) ∧
      (drainSteps env fuel s).map (·.1) = drainTrace env fuel s ∧
      ∀ p, p ∈ drainSteps env fuel s → ∃ gp, DInvF env sp t p.2 gp (some p.1) := by
  obtain ⟨g', R, he⟩ := drain_onceF (kit E hF) fuel t s s' g D h
  have hfst := drainSteps_fst env fuel s
  refine ⟨g', R.inv, he, by rw [← hfst]; exact R.nodup, fun m hm => R.once m (by rw [hfst]; exact hm), hfst, fun p hp => ?_⟩
  obtain ⟨gp, a, -⟩ := R.steps p hp
  exact ⟨gp, a⟩

/-- **(a) AT MOST ONCE PER `stabilise`.** From the invariant between API actions: `OnceStab` (see the header; unfold with `OnceF.OnceStab`). -/
theorem stabilise_once {env : Env} {sp : Nat → Val → Val} (E : EnvS env sp) (hF : FirstFn env) {fuel : Nat} {s s' : State} (Q : QInvFE env sp s)
    (h : (stabilise env fuel).run.run s = (.ok (), s')) :
    ∃ t1 t2 t3,
      (addNewObservers env fuel).run.run { s with status := .stabilising } = (.ok (), t1) ∧
      (unlinkDisallowedObservers fuel).run.run t1 = (.ok (), t2) ∧
      (drainHeap env fuel).run.run t2 = (.ok (), t3) ∧ (stabiliseEnd env fuel).run.run t3 = (.ok (), s') ∧
      (drainTrace env fuel t2).Nodup ∧
      (∀ m, m ∈ drainTrace env fuel t2 →
        (t2.nodeD m).recomputedAt < s.stabNum ∧ (s'.nodeD m).recomputedAt = s.stabNum ∧ (s'.nodeD m).valid = true) ∧
      (drainSteps env fuel t2).map (·.1) = drainTrace env fuel t2 ∧
      (∀ p, p ∈ drainSteps env fuel t2 →
        p.2.isNecessary p.1 = true ∧ (p.2.nodeD p.1).valid = true ∧ (p.2.nodeD p.1).inRch = false ∧
          (p.2.nodeD p.1).recomputedAt < s.stabNum ∧ p.2.stabNum = s.stabNum) ∧
      (∀ m, (t2.nodeD m).recomputedAt < s.stabNum) :=
  (OnceF.stabilise_c02 E hF Q h).1

/-- **(b) FINAL INPUTS.** What `stabilise` establishes (`C01Full.stabilise_full`) implies: every necessary node is valid, not stale, computed, and no child changed after the node
last ran. -/
theorem stabilise_final_inputs {env : Env} {sp : Nat → Val → Val} {s s' : State} {g' : Nat → Option Val} (R : StabF env sp s s' g') :
    ∀ n, s'.isNecessary n = true →
      (s'.nodeD n).valid = true ∧ s'.isStale n = false ∧
      (∀ c, c ∈ s'.children n → (s'.nodeD c).changedAt ≤ (s'.nodeD n).recomputedAt) ∧
      ((∀ c, (s'.nodeD n).kind ≠ .var c) → (s'.nodeD n).recomputedAt ≠ -1) ∧
      (∀ c vc, (s'.nodeD n).kind = .var c → s'.vars[c]? = some vc → vc.setAt ≤ (s'.nodeD n).recomputedAt) :=
  stabF_finalInputs R

/-- **C02 for one `stabilise` of the combined fragment**: (a), (b), and the invariant again. -/
theorem stabilise_c02 {env : Env} {sp : Nat → Val → Val} (E : EnvS env sp) (hF : FirstFn env) {fuel : Nat} {s s' : State} (Q : QInvFE env sp s)
    (h : (stabilise env fuel).run.run s = (.ok (), s')) : OnceStab env fuel s s' ∧ FinalInputs s' ∧ QInvFE env sp s' :=
  OnceF.stabilise_c02 E hF Q h

/-- **C02 AT EVERY `stabilise` OF EVERY HISTORY OF THE COMBINED FRAGMENT** run from the initial state. -/
theorem history_c02 {env : Env} {sp : Nat → Val → Val} (E : EnvS env sp) (hF : FirstFn env) {N : Nat} {d : Bool} {as bs : List Action}
    {s : State} {tk : Array Nat} (hH : HistFull env sp 0 (as ++ Action.stabilise :: bs))
    (h : Quiet.runActions env (as ++ Action.stabilise :: bs) (State.init N d) #[] = .ok (s, tk)) :
    ∃ s1 tk1 s2, Quiet.runActions env as (State.init N d) #[] = .ok (s1, tk1) ∧ QInvFE env sp s1 ∧
      (stabilise env fuelDefault).run.run s1 = (.ok (), s2) ∧ QInvFE env sp s2 ∧
      OnceStab env fuelDefault s1 s2 ∧ FinalInputs s2 ∧
      Quiet.runActions env bs s2 tk1 = .ok (s, tk) :=
  OnceF.history_c02 E hF hH h

/-- **(b') INPUTS BEFORE OUTPUTS.** In the drain of a `stabilise` from the invariant between API actions, no stable child (`OnceF.SKid`: any child except the current rhs of a bind's
main node, taken in the state in which the parent ran) of a node is handed to `recomputeOne` after the node. -/
theorem stabilise_order {env : Env} {sp : Nat → Val → Val} (E : EnvS env sp) (hF : FirstFn env) {fuel : Nat} {s s' : State} (Q : QInvFE env sp s)
    (h : (stabilise env fuel).run.run s = (.ok (), s')) :
    ∃ t1 t2 t3,
      (addNewObservers env fuel).run.run { s with status := .stabilising } = (.ok (), t1) ∧
      (unlinkDisallowedObservers fuel).run.run t1 = (.ok (), t2) ∧
      (drainHeap env fuel).run.run t2 = (.ok (), t3) ∧ (stabiliseEnd env fuel).run.run t3 = (.ok (), s') ∧
      (drainSteps env fuel t2).Pairwise fun p q =>
        ∀ c, (c ∈ p.2.children p.1 ∧ ∀ b lc, (p.2.nodeD p.1).kind = .bindMain b lc → c = lc) → q.1 ≠ c :=
  stabilise_orderF E hF Q h

/-- (b') at every `stabilise` of every history of the combined fragment -/
theorem history_order {env : Env} {sp : Nat → Val → Val} (E : EnvS env sp) (hF : FirstFn env) {N : Nat} {d : Bool} {as bs : List Action}
    {s : State} {tk : Array Nat} (hH : HistFull env sp 0 (as ++ Action.stabilise :: bs))
    (h : Quiet.runActions env (as ++ Action.stabilise :: bs) (State.init N d) #[] = .ok (s, tk)) :
    ∃ s1 tk1 s2, Quiet.runActions env as (State.init N d) #[] = .ok (s1, tk1) ∧
      (stabilise env fuelDefault).run.run s1 = (.ok (), s2) ∧ OrderStab env fuelDefault s1 s2 ∧
      Quiet.runActions env bs s2 tk1 = .ok (s, tk) :=
  history_orderF E hF hH h

/-- **(b'') FINAL INPUTS, VALUE FORM.** For every step of the drain of a `stabilise` from the invariant between API actions: every stable child of the node that runs exists, and stores in
the final state the value it stored when the node ran (or nothing). -/
theorem stabilise_inputs {env : Env} {sp : Nat → Val → Val} (E : EnvS env sp) (hF : FirstFn env) {fuel : Nat} {s s' : State} (Q : QInvFE env sp s)
    (h : (stabilise env fuel).run.run s = (.ok (), s')) :
    ∃ t1 t2 t3,
      (addNewObservers env fuel).run.run { s with status := .stabilising } = (.ok (), t1) ∧
      (unlinkDisallowedObservers fuel).run.run t1 = (.ok (), t2) ∧
      (drainHeap env fuel).run.run t2 = (.ok (), t3) ∧ (stabiliseEnd env fuel).run.run t3 = (.ok (), s') ∧
      ∀ p, p ∈ drainSteps env fuel t2 →
        ∀ c, (c ∈ p.2.children p.1 ∧ ∀ b lc, (p.2.nodeD p.1).kind = .bindMain b lc → c = lc) →
          c < p.2.nodes.size ∧ ((s'.nodeD c).value = (p.2.nodeD c).value ∨ (s'.nodeD c).value = none) :=
  stabilise_inputsF E hF Q h

/-- (b'') at every `stabilise` of every history of the combined fragment -/
theorem history_inputs {env : Env} {sp : Nat → Val → Val} (E : EnvS env sp) (hF : FirstFn env) {N : Nat} {d : Bool} {as bs : List Action}
    {s : State} {tk : Array Nat} (hH : HistFull env sp 0 (as ++ Action.stabilise :: bs))
    (h : Quiet.runActions env (as ++ Action.stabilise :: bs) (State.init N d) #[] = .ok (s, tk)) :
    ∃ s1 tk1 s2, Quiet.runActions env as (State.init N d) #[] = .ok (s1, tk1) ∧
      (stabilise env fuelDefault).run.run s1 = (.ok (), s2) ∧ InputsStab env fuelDefault s1 s2 ∧
      Quiet.runActions env bs s2 tk1 = .ok (s, tk) :=
  history_inputsF E hF hH h

/-- the value frame behind (b''): whatever its outcome, a call `recomputeOne env fuel n` — any kind of node, also outside the fragment — leaves every other existing node with the value it
stored, or with none -/
theorem recomputeOne_value_frame (env : Env) (fuel n : Nat) (s : State) (r : Except Panic (Option Nat)) (s' : State)
    (h : (recomputeOne env fuel n).run.run s = (r, s')) :
    s.nodes.size ≤ s'.nodes.size ∧
      ∀ m, m ≠ n → m < s.nodes.size → (s'.nodeD m).value = (s.nodeD m).value ∨ (s'.nodeD m).value = none :=
  ⟨((PresV.recomputeOne env fuel n).h s r s' h).size, ((PresV.recomputeOne env fuel n).h s r s' h).value⟩

/-! ## non-vacuity -/

/-- the hypotheses hold for the example history `exHistF` of `C01Full` (environment, fragment, it runs), so C02 holds at each of its seven `stabilise`s -/
example : EnvS fEnv fSp ∧ FirstFn fEnv ∧ HistFull fEnv fSp 0 exHistF ∧
    (∃ s tk, Quiet.runActions fEnv exHistF (State.init 128 true) #[] = .ok (s, tk)) ∧
    (∀ {as bs : List Action}, exHistF = as ++ Action.stabilise :: bs →
      ∃ s tk s1 tk1 s2, Quiet.runActions fEnv exHistF (State.init 128 true) #[] = .ok (s, tk) ∧
        Quiet.runActions fEnv as (State.init 128 true) #[] = .ok (s1, tk1) ∧
        (stabilise fEnv fuelDefault).run.run s1 = (.ok (), s2) ∧
        OnceStab fEnv fuelDefault s1 s2 ∧ FinalInputs s2 ∧
        Quiet.runActions fEnv bs s2 tk1 = .ok (s, tk)) :=
  ⟨fEnv_envS, fEnv_first, exHistF_frag, exHistF_runs, fun e => exHistF_c02 e⟩

/-- the same for `exHistG` (`depend_on`, `cutoff n never`) -/
example : HistFull fEnv fSp 0 exHistG ∧
    (∀ {as bs : List Action}, exHistG = as ++ Action.stabilise :: bs →
      ∃ s tk s1 tk1 s2, Quiet.runActions fEnv exHistG (State.init 128 true) #[] = .ok (s, tk) ∧
        Quiet.runActions fEnv as (State.init 128 true) #[] = .ok (s1, tk1) ∧
        (stabilise fEnv fuelDefault).run.run s1 = (.ok (), s2) ∧
        OnceStab fEnv fuelDefault s1 s2 ∧ FinalInputs s2 ∧
        Quiet.runActions fEnv bs s2 tk1 = .ok (s, tk)) :=
  ⟨exHistG_frag, fun e => exHistG_c02 e⟩

/-- the drain traces (`EX.traceAfter acts` = `drainTrace` of the state `t2` of the `stabilise` that follows `acts`) of the seven `stabilise`s of `exHistF`, kernel-checked: 14
distinct nodes in the first round; only the third component of the pair variable written — the map_ref node 5 runs, its parents 6, 7 do not; first component written — 5, 6, 7
run; the lhs flips — `[1, 3, 14, 4]`, no node of the dying generation 5…13; nothing observed — nothing runs; re-observed — a fresh generation -/
example :
    EX.traceAfter (exHistF.take 5) = some [1, 3, 0, 2, 9, 5, 6, 12, 7, 13, 8, 10, 11, 4] ∧
    EX.traceAfter (exHistF.take 7) = some [0, 5, 12, 13, 10, 11, 4] ∧
    EX.traceAfter (exHistF.take 9) = some [0, 5, 6, 7, 12, 8, 11, 4] ∧
    EX.traceAfter (exHistF.take 11) = some [1, 3, 14, 4] ∧
    EX.traceAfter (exHistF.take 13) = some [] ∧
    EX.traceAfter (exHistF.take 18) = some [1, 3, 0, 2, 15, 19, 16, 22, 17, 20, 18, 21, 4] ∧
    EX.traceAfter (exHistF.take 20) = some [2, 19, 23, 24, 18, 20, 21, 4] :=
  exHistF_traces

/-- the drain traces of the five `stabilise`s of `exHistG`, kernel-checked -/
example :
    EX.traceAfter (exHistG.take 10) = some [1, 2, 3, 0, 6, 12, 7, 8, 15, 9, 10, 16, 11, 13, 14, 4, 5] ∧
    EX.traceAfter (exHistG.take 12) = some [2, 6, 12, 17, 18, 11, 13, 14, 4, 5] ∧
    EX.traceAfter (exHistG.take 15) = some [2, 6, 12, 7, 19, 20, 11, 13, 14, 4, 5] ∧
    EX.traceAfter (exHistG.take 17) = some [1, 3, 6, 21, 7, 4, 5] ∧
    EX.traceAfter (exHistG.take 19) = some [2, 6, 7, 5] :=
  exHistG_traces

/-- (b') holds at every `stabilise` of `exHistF` and of `exHistG`; the child lists of the first generation of `exHistF` (kernel-checked) are not empty: the map_ref chain `6 → 5 → 0`,
the machine `7 → 6`, `8 → [7, 2]`, the inner change detector `9 → 2`, the inner main node `10 → [9, 13]`, `11 → [8, 10]`, the outer main node `4 → [3, 11]` — and in the trace
`[1, 3, 0, 2, 9, 5, 6, 12, 7, 13, 8, 10, 11, 4]` of the first round each of them runs after its children -/
example : (∀ {as bs : List Action}, exHistF = as ++ Action.stabilise :: bs →
      ∃ s tk s1 tk1 s2, Quiet.runActions fEnv exHistF (State.init 128 true) #[] = .ok (s, tk) ∧
        Quiet.runActions fEnv as (State.init 128 true) #[] = .ok (s1, tk1) ∧
        (stabilise fEnv fuelDefault).run.run s1 = (.ok (), s2) ∧ OrderStab fEnv fuelDefault s1 s2 ∧
        Quiet.runActions fEnv bs s2 tk1 = .ok (s, tk)) ∧
    (∀ {as bs : List Action}, exHistG = as ++ Action.stabilise :: bs →
      ∃ s tk s1 tk1 s2, Quiet.runActions fEnv exHistG (State.init 128 true) #[] = .ok (s, tk) ∧
        Quiet.runActions fEnv as (State.init 128 true) #[] = .ok (s1, tk1) ∧
        (stabilise fEnv fuelDefault).run.run s1 = (.ok (), s2) ∧ OrderStab fEnv fuelDefault s1 s2 ∧
        Quiet.runActions fEnv bs s2 tk1 = .ok (s, tk)) ∧
    (BindH.C2h.stateB fEnv (exHistF.take 6)).map (fun s => [4, 5, 6, 7, 8, 9, 10, 11].map s.children) =
      some [[3, 11], [0], [5], [6], [7, 2], [2], [9, 13], [8, 10]] :=
  ⟨fun e => exHistF_order e, fun e => exHistG_order e, exHistF_children⟩

/-- (b'') holds at every `stabilise` of `exHistF` and of `exHistG` -/
example : (∀ {as bs : List Action}, exHistF = as ++ Action.stabilise :: bs →
      ∃ s tk s1 tk1 s2, Quiet.runActions fEnv exHistF (State.init 128 true) #[] = .ok (s, tk) ∧
        Quiet.runActions fEnv as (State.init 128 true) #[] = .ok (s1, tk1) ∧
        (stabilise fEnv fuelDefault).run.run s1 = (.ok (), s2) ∧ InputsStab fEnv fuelDefault s1 s2 ∧
        Quiet.runActions fEnv bs s2 tk1 = .ok (s, tk)) ∧
    (∀ {as bs : List Action}, exHistG = as ++ Action.stabilise :: bs →
      ∃ s tk s1 tk1 s2, Quiet.runActions fEnv exHistG (State.init 128 true) #[] = .ok (s, tk) ∧
        Quiet.runActions fEnv as (State.init 128 true) #[] = .ok (s1, tk1) ∧
        (stabilise fEnv fuelDefault).run.run s1 = (.ok (), s2) ∧ InputsStab fEnv fuelDefault s1 s2 ∧
        Quiet.runActions fEnv bs s2 tk1 = .ok (s, tk)) :=
  ⟨fun e => exHistF_inputs e, fun e => exHistG_inputs e⟩

end IncrVerif.Props.C02Full
