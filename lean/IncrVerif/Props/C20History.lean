import IncrVerif.Proofs.MemoH19
/-!
# C20 over whole histories — `weak_memoize_fn`: table invariant, sharing, scope

Model: `memoCall env m key` (`Engine/Recompute.lean`), the tables `State.memos`, the sweep at the end of
`stabiliseEnd`, the ownership model `State.aliveSet` (`Engine/Alive.lean`).  Single-call facts: `Props/C20.lean`.
Helper files: `Proofs/MemoH1.lean` … `MemoH19.lean`.  Histories: `Life.Run env P s s'` (`Proofs/Life3.lean`: API
actions run one after the other through `stepAction`, any token tables, ANY OUTCOME — a panic keeps the state of
the panic point —, the harness's reset of the event log is a step; `Life.run_runStates`: what the harness runs is
such a history) and `RunI env I A s s'` (the same, every action satisfies `A`, every state reached satisfies `I`).

Vocabulary (`Proofs.MemoH`): `stored s m key` the entry of `key` in table `m`; `Fut s s'` (`s'` is a future of
`s`: nodes appended, `kind`/`createdIn` immutable, names in `top` kept); `Produced env s m key n` (`n` was returned
by, and created during, a run of `elabTemplateBase (env.memo m) (.int key)` started with `currentScope = .top` in a
state of which `s` is a future); `TInv env s` THE TABLE INVARIANT (memo functions distinct, keys distinct per table,
every entry `Produced`); `RegScoped s` (a node registered in a bind's `allNodesCreatedOnRhs` exists and was created
in that bind's scope); `CallRet env m key s n s'` (the API action `create (memoCall m key)` run in `s` returned node
`n`, i.e. `api ok #n`, and left `s'`: `call_returns_iff`); `Anchored s n` (the program holds a node handle or an
observer handle on `n`, or on a static node — `map`, `fold`, `map_ref`, `map_with_old` — that has `n` among its
inputs, hereditarily); `STop s n` (`n` is a hereditarily static top-level node: created in scope `.top`, kind
`const`/`var`/`map`/`fold`, inputs older and `STop`); `TopValid s` (all `STop` nodes are valid).

## FRAGMENT / hypotheses (each theorem lists its own)
* `MemoBodyOK env` (K1, K2, K3): every memo body consists of `const`, `lhsConst` (the key), `var`, `map`, `fold`
  instructions (operands unrestricted: `.outer`, `.loc`, …) and returns one of the nodes it created (`ret = .loc j`).
  EVERYTHING ELSE IS UNRESTRICTED in K1 and in the anchor form of K2: all API actions (binds, nested binds, experts,
  per-key operators, `map_ref`, `map_with_old`, observers, subscriptions, writes, drops, `set_max_height`, faults
  armed by `arm`), every outcome, bind closures containing any `memoCall` instructions, debug or release.
* K2, allocation form and converse: bind closures do not call THIS `(m, key)` (`BodiesP (NotThis m key) env`); they
  may call other keys / other memo functions.
* K3 validity: user functions and handlers never call `expert::invalidate` (`EnvK3 env`); the final state has no
  per-key driver node (`NoPK`: no `map` node with id `≥ fnPerKey`; kinds are immutable and nodes only appended, so
  then none ever existed); the outer handles the memo bodies mention exist and are `STop` (`MemoOuterOK env s`,
  monotone along futures) from the state `s` on from which the history is considered.

## PROVED
K1 `table_invariant_action`, `table_invariant_history`, `table_invariant_init`: every API action (whatever its
   outcome) keeps `TInv` and `RegScoped`; `table_entry`: an entry names an existing node created in scope `.top`,
   produced by the memo body on its key, and is the only entry of its key; `after_stabilise_entries_alive`: after a
   `stabilise` that returns every entry's node is in `aliveSet`; `after_stabilise_entry`: (closures not calling
   `(m, key)`) the entry of `key` afterwards is the old one if its node is still allocated, and is gone otherwise.
K2 `same_key_same_node` (a hit at API level: `ok #n`, no node created, log and everything but `top`/`handles`
   unchanged), `sharing_anchored` (call, any history during which `n` stays anchored — closures may call anything —,
   call again ⟹ same node), `sharing_alive` (the same with "still allocated for whatever reason" in place of
   "anchored"; closures do not call this key), `sharing_trace` (still allocated at every API boundary and no
   invocation of this key in the trace; closures may call anything), `released_then_recomputed` (call; history without calls of this key;
   `n` no longer allocated at the later call ⟹ that call is a miss: a node created by this very call is returned —
   hence `≠ n` —, the invocation is logged, the new entry is `Produced`), `released_and_swept`.
K3 `memo_nodes_not_registered` (no entry of any table is in any bind's `allNodesCreatedOnRhs`; in particular not in
   that of the bind whose closure made the call), `entries_static` (with `MemoOuterOK`: every entry is `STop`),
   `static_top_nodes_stay_valid` (`TopValid` is kept by every action (`MemoH11`–`16`): re-running or invalidating binds any number of
   times never invalidates an `STop` node), `memo_nodes_stay_valid`.

## FINDINGS (model = Rust on these, checked with the differential harness)
* "once all references are gone AND A STABILISE HAS RUN, the next call invokes the function again": the stabilise is
  not needed.  The entry holds a weak reference; as soon as the node is freed the next call misses, runs the
  function again and replaces the entry (history `var; memocall m0 1; drophandle n1; memocall m0 1` answers `ok #2`,
  `ok #4` in the model and in the crate).  `released_then_recomputed` is stated accordingly (no stabilise required);
  what the stabilise adds is only that the dead entry is physically removed (`released_and_swept`).
* the clause "calling … returns that same node WHILE IT IS REFERENCED ANYWHERE" is proved in three forms: anchor
  form (handles / observers / static parents; no restriction on closures), allocation form (`aliveSet` at every API
  boundary; closures must not call the same key) and trace form (`aliveSet` at every API boundary, no invocation note
  of this key in the trace; no restriction on closures).  The remaining gap — allocation form with closures calling
  the same key and NO trace hypothesis — needs "a node that is allocated before and after a `stabilise` is allocated
  at every point during it" (an ownership invariant of the whole drain: not proved).

## NOT PROVED
* that gap (closed only under the trace hypothesis of `sharing_trace`); values of memo nodes equal the from-scratch evaluation (K3 last clause: `Props/C03Order.lean`'s fragment
  F1 has no `memoCall` in closures and was not extended; validity only);
* K3 validity for memo bodies over non-static outer nodes (e.g. a bind's main node: it CAN become invalid, and then
  so do its dependants), for per-key operators and for programs calling `expert::invalidate`;
* liveness of `Produced`'s witness states beyond `Fut` (the past state is existentially quantified).
-/
namespace IncrVerif.Props.C20History
open IncrVerif.Engine IncrVerif.Proofs IncrVerif.Proofs.Obs IncrVerif.Proofs.Memo IncrVerif.Proofs.MemoH

/-! ## K1 — the table invariant -/

/-- The initial state satisfies the table invariant (and has no registrations). -/
theorem table_invariant_init (env : Env) (k : Nat) (d : Bool) :
    TInv env (State.init k d) ∧ RegScoped (State.init k d) :=
  ⟨tinv_init env k d, fun b br h => by simp [State.init] at h⟩

/-- EVERY API action, whatever its outcome (return or panic), from ANY state: the final state is a future of the
initial one, and the table invariant and `RegScoped` are kept. -/
theorem table_invariant_action {env : Env} (hok : MemoBodyOK env) (a : Action) (tokens : Array Nat)
    (s s' : State) (r) (h : (stepAction env a tokens).run.run s = (r, s')) :
    Fut s s' ∧ (TInv env s → TInv env s') ∧ (RegScoped s → RegScoped s') :=
  have := (ms_stepAction hok a tokens).h s r s' h
  ⟨this.fut, this.tinv, this.reg⟩

/-- Whole histories. -/
theorem table_invariant_history {env : Env} (hok : MemoBodyOK env) {P} {s s' : State}
    (h : Life.Run env P s s') (ht : TInv env s) (hr : RegScoped s) : TInv env s' ∧ RegScoped s' ∧ Fut s s' :=
  have := ms_run hok h
  ⟨this.tinv ht, this.reg hr, this.fut⟩

/-- What the invariant says about one entry `(key, n)` of table `m`: `n` exists, all of it was created in the
top-level scope, it was produced by the memo body on `key`, it is what a lookup of `key` finds, and it is the
only entry of `key`. -/
theorem table_entry {env : Env} {s : State} (ht : TInv env s) {m : Nat} {tbl : List (Int × Nat)}
    (hm : (m, tbl) ∈ s.memos) {key : Int} {n : Nat} (hk : (key, n) ∈ tbl) :
    n < s.nodes.size ∧ (s.nodeD n).createdIn = .top ∧ Produced env s m key n ∧
      stored s m key = some n ∧ ∀ n', (key, n') ∈ tbl → n' = n := by
  have hp := ht.entry m tbl hm key n hk
  have hl : s.memos.lookup m = some tbl := lookup_of_mem ht.tables hm
  have hs : ∀ n', (key, n') ∈ tbl → stored s m key = some n' := fun n' h' => by
    simp only [stored, hl, Option.getD_some]
    exact lookup_of_mem (ht.keys m tbl hm) h'
  refine ⟨hp.facts.1, hp.facts.2, hp, hs n hk, fun n' h' => ?_⟩
  have := (hs n' h').symm.trans (hs n hk)
  exact Option.some.inj this

/-- The run of the memo body that produced an entry created a block `lo … hi-1` of nodes, ALL of them in the
top-level scope (whatever the scope of the caller), and the entry is one of them. -/
theorem produced_nodes_top {env : Env} {s : State} {m : Nat} {key : Int} {n : Nat}
    (h : Produced env s m key n) :
    ∃ lo hi, lo ≤ n ∧ n < hi ∧ hi ≤ s.nodes.size ∧ ∀ i, lo ≤ i → i < hi → (s.nodeD i).createdIn = .top :=
  h.block

/-- After a `stabilise` that returns, every entry of every table names a node that is still allocated. -/
theorem after_stabilise_entries_alive (env : Env) (tokens : Array Nat) (s s' : State) (r)
    (h : (stepAction env .stabilise tokens).run.run s = (.ok r, s')) :
    ∀ m tbl, (m, tbl) ∈ s'.memos → ∀ key n, (key, n) ∈ tbl → n ∈ s'.aliveSet :=
  stabilise_entries_alive env tokens s s' r h

/-- … and, when bind closures do not call `(m, key)`, the entry of `key` after a `stabilise` that returns is the
old entry if its node is still allocated and is gone otherwise (dead entries are swept). -/
theorem after_stabilise_entry {env : Env} (hok : MemoBodyOK env) (m : Nat) (key : Int)
    (hb : BodiesP (NotThis m key) env) (tokens : Array Nat) (s s' : State) (r)
    (h : (stepAction env .stabilise tokens).run.run s = (.ok r, s')) (ht : TInv env s) :
    stored s' m key = (stored s m key).filter fun n => s'.aliveSet.contains n :=
  (stabilise_entry hok m key hb tokens s s' (.ok r) h ht).2

/-! ## K2 — sharing -/

/-- The API action `create (memoCall m key)` returns normally iff the memoised call does; its `api` text is
`ok #n` for the node `n` of `CallRet`. -/
theorem call_returns_iff (env : Env) (m : Nat) (key : Int) (tokens : Array Nat) (s s' : State) (r) :
    (stepAction env (.create (.memoCall m key)) tokens).run.run s = (.ok r, s') ↔
      ∃ n, CallRet env m key s n s' ∧ r = (s!"ok #{n}", tokens) :=
  stepAction_memo_ok env m key tokens s s' r

/-- After the call returned `n`: `n` is the entry of `key`, and the program holds a handle on it. -/
theorem call_stores {env : Env} {m : Nat} {key : Int} {s s' : State} {n : Nat}
    (h : CallRet env m key s n s') : stored s' m key = some n ∧ n ∈ s'.handles ∧ Anchored s' n :=
  h.facts

/-- A HIT: the entry's node is still allocated ⟹ the call answers `ok #n` with that node; the only change of the
state is the new handle (`top`, `handles`): no node is created, nothing is logged — the underlying function is
not invoked —, the tables are untouched. -/
theorem same_key_same_node (env : Env) (m : Nat) (key : Int) (tokens : Array Nat) (s : State) (n : Nat)
    (hs : stored s m key = some n) (ha : n ∈ s.aliveSet) :
    (stepAction env (.create (.memoCall m key)) tokens).run.run s =
      (.ok (s!"ok #{n}", tokens), { s with top := s.top.push n, handles := n :: s.handles }) :=
  call_hit env m key tokens s n hs ha

/-- SHARING, anchor form.  A call returned `n`; then any history — any actions, any outcomes, bind closures calling
any memoised function with any key, this one included — in every state of which `n` is anchored (the program holds
a node or observer handle on `n`, or on a static node that has `n` among its inputs, hereditarily).  Then a later
call with the same key answers `ok #n`, creates no node and logs nothing. -/
theorem sharing_anchored (env : Env) (m : Nat) (key : Int) (n : Nat) {s0 s1 s2 : State}
    (hcall : CallRet env m key s0 n s1)
    (hrun : RunI env (fun t => Anchored t n) (fun _ => True) s1 s2) (tokens : Array Nat) :
    (stepAction env (.create (.memoCall m key)) tokens).run.run s2 =
      (.ok (s!"ok #{n}", tokens), { s2 with top := s2.top.push n, handles := n :: s2.handles }) := by
  obtain ⟨h1, _, h3⟩ := hcall.facts
  obtain ⟨h4, h5⟩ := share_anchored env m key n h1 h3 hrun
  exact call_hit env m key tokens s2 n h4 h5.alive

/-- SHARING, allocation form.  A call returned `n`; then any history in every state of which `n` is still
allocated (`aliveSet`: handles, observers, parents, bind records, shared cells, the recompute heap …), bind closures
not calling `(m, key)` themselves.  Then a later call with the same key answers `ok #n`, creates no node and logs
nothing. -/
theorem sharing_alive {env : Env} (hok : MemoBodyOK env) (m : Nat) (key : Int) (n : Nat)
    (hb : BodiesP (NotThis m key) env) {s0 s1 s2 : State} (ht : TInv env s0)
    (hcall : CallRet env m key s0 n s1)
    (hrun : RunI env (fun t => n ∈ t.aliveSet) (fun _ => True) s1 s2) (tokens : Array Nat) :
    (stepAction env (.create (.memoCall m key)) tokens).run.run s2 =
      (.ok (s!"ok #{n}", tokens), { s2 with top := s2.top.push n, handles := n :: s2.handles }) ∧
      TInv env s2 := by
  obtain ⟨h1, _, h3⟩ := hcall.facts
  have ht1 : TInv env s1 := by
    obtain ⟨sx, hm, rfl⟩ := hcall
    exact (MS.push (env := env) sx n).tinv (((ms_memoCall hok m key).h _ _ _ hm).tinv ht)
  have hal : n ∈ s2.aliveSet := RunI.last (I := fun t => n ∈ t.aliveSet) (fun _ h => h) h3.alive hrun
  obtain ⟨h4, h5⟩ := share_alive hok m key n hb ht1 h1 h3.alive hrun
  exact ⟨call_hit env m key tokens s2 n h4 hal, h5⟩

/-- SHARING, trace form.  A call returned `n`; then any history — bind closures calling any memoised function with
any key — in every state of which `n` is still allocated (for whatever reason) and the event log shows no
invocation of `(m, key)` (`memoNote m key`, the `note` event `memo m<m> invoked <key>` every miss logs; the harness
resets the log before each action, so this reads "no action of the history logged it").  Then a later call with the
same key answers `ok #n`, creates no node and logs nothing. -/
theorem sharing_trace (env : Env) (m : Nat) (key : Int) (n : Nat) {s0 s1 s2 : State}
    (hcall : CallRet env m key s0 n s1)
    (hrun : RunI env (fun t => n ∈ t.aliveSet ∧ memoNote m key ∉ t.log) (fun _ => True) s1 s2)
    (tokens : Array Nat) :
    (stepAction env (.create (.memoCall m key)) tokens).run.run s2 =
      (.ok (s!"ok #{n}", tokens), { s2 with top := s2.top.push n, handles := n :: s2.handles }) := by
  obtain ⟨h1, _, h3⟩ := hcall.facts
  have hal : n ∈ s2.aliveSet :=
    RunI.last (I := fun t => n ∈ t.aliveSet) (fun _ h => h) h3.alive (hrun.mono fun _ h => h.1)
  exact call_hit env m key tokens s2 n (share_quiet env m key n h1 hrun) hal

/-- CONVERSE.  A call returned `n`; then a history without calls of `(m, key)` (no API action `create (memoCall m
key)`, bind closures not calling it); at its end `n` is no longer allocated.  Then a call that returns is a MISS:
the node `n'` it returns was created by this very call (`s2.nodes.size ≤ n'`, so `n' ≠ n`), the invocation of the
underlying function is logged (exactly one event; the body ran from `memoStart`), and `n'` is the new entry,
`Produced` by the body.  NO `stabilise` is required in between (finding in the header). -/
theorem released_then_recomputed {env : Env} (hok : MemoBodyOK env) (m : Nat) (key : Int) (n : Nat)
    (hb : BodiesP (NotThis m key) env) {s0 s1 s2 s3 : State} (ht : TInv env s0)
    (hcall : CallRet env m key s0 n s1)
    (hrun : RunI env (fun _ => True) (fun a => a ≠ .create (.memoCall m key)) s1 s2)
    (hdead : n ∉ s2.aliveSet) {n' : Nat} (hcall2 : CallRet env m key s2 n' s3) :
    s2.nodes.size ≤ n' ∧ n' ≠ n ∧ s3.log = memoNote m key :: s2.log ∧
      stored s3 m key = some n' ∧ Produced env s3 m key n' := by
  obtain ⟨h1, _, _⟩ := hcall.facts
  have ht1 : TInv env s1 := by
    obtain ⟨sx, hm, rfl⟩ := hcall
    exact (MS.push (env := env) sx n).tinv (((ms_memoCall hok m key).h _ _ _ hm).tinv ht)
  obtain ⟨hw, _⟩ := entry_weak hok m key hb ht1 hrun
  have hmiss : memoHit s2 m key = none := dead_entry_misses (by rw [← h1]; exact hw) hdead
  obtain ⟨q1, _, q3, q4, q5⟩ := call_miss hok m key s2 s3 n' hmiss hcall2
  have hn : n < s2.nodes.size :=
    Nat.lt_of_lt_of_le (ht1.stored h1).facts.1 (ms_run hok hrun.run).fut.nodesLe
  exact ⟨q1, by omega, q3, q4, q5⟩

/-- … and if a `stabilise` returns in a state where the entry's node is no longer allocated (closures not calling
`(m, key)`), the entry is physically gone afterwards. -/
theorem released_and_swept {env : Env} (hok : MemoBodyOK env) (m : Nat) (key : Int) (n : Nat)
    (hb : BodiesP (NotThis m key) env) (tokens : Array Nat) (s s' : State) (r)
    (h : (stepAction env .stabilise tokens).run.run s = (.ok r, s')) (ht : TInv env s)
    (hs : stored s m key = some n) (hd : n ∉ s'.aliveSet) : stored s' m key = none := by
  rw [after_stabilise_entry hok m key hb tokens s s' r h ht, hs]
  simp [Option.filter, hd]

/-! ## K3 — scope -/

/-- NOT REGISTERED.  No entry of any memo table is in any bind's `allNodesCreatedOnRhs` — in particular a node
obtained from a memoised function inside the closure of bind `b` is not among the nodes that re-running (or
invalidating) `b` invalidates directly.  `TInv` and `RegScoped` hold along every history (`table_invariant_history`). -/
theorem memo_nodes_not_registered {env : Env} {s : State} (ht : TInv env s) (hr : RegScoped s) {m : Nat}
    {tbl : List (Int × Nat)} (hm : (m, tbl) ∈ s.memos) {key : Int} {n : Nat} (hk : (key, n) ∈ tbl) :
    ∀ b, n ∉ rhsNodes s b :=
  entry_not_registered ht hr hm hk

/-- When the outer handles the memo bodies mention name hereditarily static top-level nodes, every entry of every
table is a hereditarily static top-level node, along every history. -/
theorem entries_static {env : Env} (hok : MemoBodyOK env) {P} {s s' : State} (h : Life.Run env P s s')
    (ho : MemoOuterOK env s) (he : EntriesSTop s) : EntriesSTop s' :=
  (es_run hok h).stop ho he

/-- VALID FOR EVER.  Along every history of the fragment (no `expert::invalidate` in user code, no per-key driver in
the final state) — binds re-running, being invalidated or dropped any number of times, nested binds, experts — no
hereditarily static top-level node is ever invalidated. -/
theorem static_top_nodes_stay_valid {env : Env} (henv : EnvK3 env) {P} {s s' : State}
    (h : Life.Run env P s s') (hn : NoPK s') (hr : RegScoped s) (hv : TopValid s) :
    TopValid s' ∧ RegScoped s' :=
  topValid_run_cor (aspec env henv) henv h hn hr hv

/-- K3 assembled: every node a memoised function has stored — wherever the call came from, top level or a bind
closure — exists, is a hereditarily static top-level node, is VALID, and is registered with no bind. -/
theorem memo_nodes_stay_valid {env : Env} (hok : MemoBodyOK env) (henv : EnvK3 env) {P} {s s' : State}
    (h : Life.Run env P s s') (ht : TInv env s) (ho : MemoOuterOK env s) (he : EntriesSTop s)
    (hv : TopValid s) (hr : RegScoped s) (hn : NoPK s') {m : Nat} {tbl : List (Int × Nat)}
    (hm : (m, tbl) ∈ s'.memos) {key : Int} {n : Nat} (hk : (key, n) ∈ tbl) :
    STop s' n ∧ (s'.nodeD n).valid = true ∧ ∀ b, n ∉ rhsNodes s' b := by
  obtain ⟨h1, h2, h3, _⟩ := k3_run hok henv h ho he hv hr hn
  have ht' := (ms_run hok h).tinv ht
  exact ⟨h1 m tbl hm key n hk, h2 n (h1 m tbl hm key n hk), entry_not_registered ht' h3 hm hk⟩

/-- … and a node that has been an entry stays valid after its entry is gone (swept, or replaced). -/
theorem static_node_stays_valid {env : Env} (henv : EnvK3 env) {P} {s s' : State}
    (h : Life.Run env P s s') (hn : NoPK s') (hr : RegScoped s) (hv : TopValid s) {n : Nat}
    (hs : STop s n) : (s'.nodeD n).valid = true :=
  (static_top_nodes_stay_valid henv h hn hr hv).1 n (hs.mono (topValid_run (aspec env henv) henv h).fut)

/-! ## non-vacuity: the harness run on three histories (kernel evaluation of the model)

`exEnvH`: memo function 0 is `|key| map f0 (n0, const key)`; bind body 0 calls it with key 1 and returns the node. -/

/-- call, call again: the same node `#2`, three nodes in all, one entry -/
example : exShare = [.create (.var (.int 2)), .create (.memoCall 0 1), .create (.memoCall 0 1)] ∧
    (exRun exShare).top = #[0, 2, 2] ∧ (exRun exShare).nodes.size = 3 ∧
    (exRun exShare).memos = [(0, [(1, 2)])] := ⟨rfl, by decide +kernel⟩

/-- call (`#2`), drop the handle, stabilise (the entry is swept), call: a NEW node `#4` -/
example : exRelease = [.create (.var (.int 2)), .create (.memoCall 0 1), .dropHandle (.outer 1), .stabilise,
      .create (.memoCall 0 1)] ∧
    (exRun exRelease).top = #[0, 2, 4] ∧ (exRun exRelease).nodes.size = 5 ∧
    (exRun exRelease).memos = [(0, [(1, 4)])] ∧
    (exRun (exRelease.take 4)).memos = [(0, [])] := ⟨rfl, by decide +kernel⟩

/-- a call inside a bind closure (`#4`, created in scope `.top` while the closure of bind 0 runs); the bind re-runs
after `set v0 3`: the closure's call is a hit (still 5 nodes), `#4` is valid, registered nowhere, recomputed in the
second round; the observer of the bind reads `3 + 1`; a top-level call then returns the same `#4` -/
example : exBind = [.create (.var (.int 2)), .create (.bind 0 (.outer 0)), .observe (.outer 1), .stabilise,
      .set 0 (.int 3), .stabilise, .create (.memoCall 0 1)] ∧
    (exRun exBind).nodes.size = 5 ∧ (exRun exBind).memos = [(0, [(1, 4)])] ∧
    ((exRun exBind).nodeD 4).createdIn = .top ∧ ((exRun exBind).nodeD 4).valid = true ∧
    ((exRun exBind).nodeD 4).recomputedAt = 1 ∧
    rhsNodes (exRun exBind) 0 = [] ∧ (exRun exBind).top = #[0, 2, 4] ∧
    ((exRun exBind).binds[0]?.map (·.rhs)) = some (some 4) ∧
    ((exRun exBind).tryGetValue exEnvH 0).toOption = some (.int 4) := ⟨rfl, by decide +kernel⟩

/-- the hypotheses of `sharing_anchored` hold of a harness run: `var 2; memocall m0 1` (answers `#2`), then
`set v0 3; observe n1; stabilise; drophandle n0` (node 2 stays in `handles`), then `memocall m0 1`: `ok #2` again -/
example : exPre = [.create (.var (.int 2)), .create (.memoCall 0 1)] ∧
    exMid = [.set 0 (.int 3), .observe (.outer 1), .stabilise, .dropHandle (.outer 0)] ∧
    (stepAction exEnvH (.create (.memoCall 0 1)) #[]).run.run exRs2.s =
      (.ok (s!"ok #{2}", #[]), { exRs2.s with top := exRs2.s.top.push 2, handles := 2 :: exRs2.s.handles }) :=
  ⟨rfl, rfl, sharing_anchored exEnvH 0 1 2 exPre_call exMid_run #[]⟩

/-- harness runs are `RunI` histories (the bridge used in the example above) -/
theorem harness_run_is_history (env : Env) (I : State → Prop) (A : Action → Prop) (as : List Action)
    (hA : ∀ a ∈ as, A a) (idx : Nat) (rs : RunState)
    (hI : ∀ k, k < as.length → I (Life.runStates env (as.take (k + 1)) idx rs).s) :
    RunI env I A rs.s (Life.runStates env as idx rs).s :=
  RunI.of_runStates env I A as hA idx rs hI

/-- the hypotheses of the K1/K3 theorems hold of this example: `memo_nodes_stay_valid` applies to the history
`exBind` from the state after its first action -/
example : STop (exRun exBind) 4 ∧ ((exRun exBind).nodeD 4).valid = true ∧ ∀ b, 4 ∉ rhsNodes (exRun exBind) b :=
  have hinit := table_invariant_init exEnvH 8 true
  have hrun0 : Life.Run exEnvH (fun _ _ => True) (State.init 8) exVar :=
    Life.run_runStates exEnvH (fun _ _ => True) [.create (.var (.int 2))] (fun _ _ _ => trivial) 0
      { s := State.init 8 }
  have ht := (table_invariant_history exEnvH_bodyOK hrun0 hinit.1 hinit.2).1
  memo_nodes_stay_valid exEnvH_bodyOK exEnvH_k3 exBind_run ht exVar_outerOK
    (entriesSTop_of_nil (by decide +kernel)) exVar_topValid exVar_regScoped
    (noPKb_sound (by decide +kernel)) (m := 0) (tbl := [(1, 4)]) (by decide +kernel) (key := 1) (n := 4)
    List.mem_cons_self

end IncrVerif.Props.C20History
