import IncrVerif.Proofs.NecRel7
/-!
# C05Release — the necessity invariant `NecWF` (C05/C11) in RELEASE mode (`cfg.debug = false`)

`Props/C05.lean` proves that `NecWF` is kept by the normal outcome of every API entry point when the debug
assertions are ON.  This file transfers those statements to release builds, for the release runs that a debug
build would have accepted.

## Definitions (`Proofs/NecRel1.lean`, `Proofs/NecRel5.lean`)
* `erase s` — `s` with `cfg.debug := false` and the debug-only field `currentlyRunning := none`;
* `Release s` — `s.cfg.debug = false ∧ s.currentlyRunning = none` (what every state reachable from
  `State.init N false` satisfies: in release mode nothing ever writes `currentlyRunning` but `stabiliseEnd`,
  which writes `none`);
* `debugTwin s cr` — `s` with `cfg.debug := true` and `currentlyRunning := cr`
  (`debugTwin (State.init N false) none = State.init N true`);
* `Sim x` — for ALL states `s`: if `x.run.run s = (.ok a, s')` then `x.run.run (erase s) = (.ok a, erase s')`.

## PROVED HERE
* `sim_*` ("a debug assertion that passes is a no-op", unconditionally — no invariant is needed): `Sim` holds
  for the assertion combinator `dassert` (`sim_dassert`), for the other two debug-only sites of the model
  (`assertRunningIsChild`, which reads `currentlyRunning`; the write `currentlyRunning := some n` at the head of
  `recomputeOne`), and — pushed through the monadic structure, all loops and all fuel-recursive and mutually
  recursive cascades — for EVERY function of `Engine/{Core,Expert,Recompute}`: the heaps, `adjustHeights`,
  `becameNecessary`/`addParentWithoutAdjustingHeights`, `becameUnnecessary`/`checkIfUnnecessary`/
  `removeChildren`, `invalidateNode`, `propagateInvalidity`, `stateAddParent`, `changeChildBindRhs`, the expert
  API, node creation (`elabInstr`, `elabTemplate`, `memoCall`), `writeVar`/`didSetVarWhileNotStabilising`, the
  observer API, `runEffects`, `perKeyDriver`, `recomputeOne`, `recompute`, `drainHeap`, `addNewObservers`,
  `unlinkDisallowedObservers`, `runAll`, `stabiliseEnd`, `stabilise`, `setMaxHeightAllowed`
  (`Proofs/NecRel2–4.lean`; restated below for the functions named in the task), and for the driver's step
  function `stepAction env a tokens` of `Engine/Run.lean`, i.e. for EVERY action of a history
  (`stepAction_sim`, `stepAction_release`: the release step returns the same API result text and token table as
  the debug step, in the erased state, whenever the debug step returns normally).
* `release_transfer`: for any `x` with `Sim x` and debug-mode preservation of `NecWF`: from a release state `s`
  (`Release s`, `NecWF s`), if the debug run from a twin `debugTwin s cr` returns `.ok a` in `sd'`, then the
  release run from `s` returns `.ok a` in `erase sd'`, and `NecWF (erase sd') ∧ Release (erase sd')`.
* `stepAction_debug_ok` (new also for debug mode: `Props/C05.lean` states the entry points one by one): the
  normal outcome of EVERY driver action `stepAction env a tokens` keeps `NecWF` when debug assertions are on;
  `stepAction_release_necwf`: its release form; `history_release`: for a whole history — if the debug build
  runs a list of actions from `State.init N true` with every action returning normally (`runActs`,
  `Proofs/NecRel7.lean`: `stepAction` iterated, token table threaded), the release build from
  `State.init N false` does too, with the same results, and ends in a state satisfying `NecWF`.
* the per-function instances `stabilise_release`, `writeVar_release`, `didSetVarWhileNotStabilising_release`,
  `subscribe_release`, `unsubscribe_release`, `disallowFutureUse_release`, `elabInstr_release`,
  `expertAddDependency_release`, `expertRemoveDependency_release`, `recomputeOne_release`,
  `propagateInvalidity_release`.
* non-vacuity: a concrete release-mode history (`State.init 4 false`, a var, a map over it, an observer, a
  stabilisation, a write, a second stabilisation) to which the theorems apply at every step (`step_r1` …
  `step_r6`), and a driver-level history `exHist` (create, create, observe, stabilise, set, subscribe,
  stabilise) for `history_release` (`exHist_release`).

## HYPOTHESIS, and what is NOT proved
* The hypothesis "the debug run from the twin returns normally" is what the transfer rests on; it is NOT derived
  from `NecWF`.  Release-mode preservation of `NecWF` for ARBITRARY release runs (those on which a debug build
  would have panicked at a `dassert`) is neither proved nor refuted here.  What is shown
  (`release_continues_past_broken_invariant`, end of file) is a concrete history on which the release build
  runs on PAST the skipped assertion `node:state_add_parent:parent-necessary` with `NecWF.e2` already broken
  (the var node records the unnecessary bind-main node as a parent) and only stops, a few steps later, at the
  hard panic `adjust_heights_heap:add:no-queue`; the state left behind violates `NecWF`, while the state the
  debug build leaves behind (it panics AT the assertion) does not contain the bad edge.  No history was found on
  which a release run RETURNS NORMALLY with `NecWF` broken: on the attempted ones the hard checks
  `node:became_necessary:bind-not-necessary` and `adjust_heights_heap:add:no-queue` (an unnecessary node has
  height -1) stop the run.  (The history makes the lhs-change node of a bind necessary without its bind-main
  node through an `.abs` operand; the Rust API never exposes lhs-change nodes, so this is a property of the
  model's operand language, not a defect of the crate.)
* Panic outcomes (as in C05), `HeapWF`, heights: not addressed.  C05 (a)–(d) in release mode: (a) and (d) do
  not depend on `cfg.debug` at all (`Props.C05.popped_is_necessary`, `no_observers_no_work` have no debug
  hypothesis); (b) follows from `recomputeOne_release` + `Props.C05.chain_is_necessary` on the twin (stated
  below as `chain_is_necessary_release`); (c) `stabiliseChecked_eq` is not transferred.
-/
namespace IncrVerif.Props.C05Release
open IncrVerif.Engine IncrVerif.Proofs IncrVerif.Proofs.Nec IncrVerif.Proofs.NecRel

/-! ## 1: a passing debug assertion is a no-op -/

/-- the assertion combinator itself -/
theorem dassert_noop (c : Bool) (site : String) : Sim (dassert c site) := sim_dassert c site
theorem stabilise_sim (env : Env) (fuel : Nat) : Sim (stabilise env fuel) := sim_stabilise env fuel
theorem writeVar_sim (x : Nat) (f : Val → Val) (isSet : Bool) : Sim (writeVar x f isSet) := sim_writeVar x f isSet
theorem didSetVarWhileNotStabilising_sim (x : Nat) : Sim (didSetVarWhileNotStabilising x) :=
  sim_didSetVarWhileNotStabilising x
theorem subscribe_sim (o hid : Nat) : Sim (subscribe o hid) := sim_subscribe o hid
theorem unsubscribe_sim (o token owner : Nat) : Sim (unsubscribe o token owner) := sim_unsubscribe o token owner
theorem disallowFutureUse_sim (o : Nat) : Sim (disallowFutureUse o) := sim_disallowFutureUse o
theorem becameNecessary_sim (env : Env) (fuel n : Nat) : Sim (becameNecessary env fuel n) :=
  sim_becameNecessary env fuel n
theorem becameUnnecessary_sim (fuel n : Nat) : Sim (becameUnnecessary fuel n) := sim_becameUnnecessary fuel n
theorem recomputeOne_sim (env : Env) (fuel n : Nat) : Sim (recomputeOne env fuel n) := sim_recomputeOne env fuel n
theorem elabInstr_sim (loc : List Nat) (lv : Val) (i : Instr) : Sim (elabInstr loc lv i) := sim_elabInstr loc lv i
theorem expertAddDependency_sim (env : Env) (fuel n child : Nat) (cb : Bool) :
    Sim (expertAddDependency env fuel n child cb) := sim_expertAddDependency env fuel n child cb
theorem expertRemoveDependency_sim (fuel n dep : Nat) : Sim (expertRemoveDependency fuel n dep) :=
  sim_expertRemoveDependency fuel n dep

/-- every action of the driver (`Engine/Run.lean`) -/
theorem stepAction_sim (env : Env) (a : Action) (tokens : Array Nat) : Sim (stepAction env a tokens) :=
  sim_stepAction env a tokens

/-- … in release form: from a release state, if the debug twin's step returns normally, the release step
returns the same result in the erased state -/
theorem stepAction_release (env : Env) (a : Action) (tokens : Array Nat) (s : State) (hrel : Release s)
    (cr : Option Nat) (r : String × Array Nat) (sd' : State)
    (hdbg : (stepAction env a tokens).run.run (debugTwin s cr) = (.ok r, sd')) :
    (stepAction env a tokens).run.run s = (.ok r, erase sd') ∧ Release (erase sd') :=
  NecRel.stepAction_release env a tokens s hrel cr r sd' hdbg

/-! ## 2: the transfer -/

/-- generic transfer (see the header) -/
theorem release_transfer {α} {x : M α} (hx : Sim x)
    (hok : ∀ (s s' : State) (a : α), NecWF s → s.cfg.debug = true → x.run.run s = (.ok a, s') →
      NecWF s' ∧ s'.cfg.debug = true)
    (s : State) (hrel : Release s) (hN : NecWF s) (cr : Option Nat) (a : α) (sd' : State)
    (hdbg : x.run.run (debugTwin s cr) = (.ok a, sd')) :
    x.run.run s = (.ok a, erase sd') ∧ NecWF (erase sd') ∧ Release (erase sd') :=
  Sim.release hx hok s hrel hN cr a sd' hdbg

theorem stabilise_release (env : Env) (fuel : Nat) (s : State) (hrel : Release s) (hN : NecWF s)
    (cr : Option Nat) (sd' : State) (hdbg : (stabilise env fuel).run.run (debugTwin s cr) = (.ok (), sd')) :
    (stabilise env fuel).run.run s = (.ok (), erase sd') ∧ NecWF (erase sd') ∧ Release (erase sd') :=
  Sim.release (sim_stabilise env fuel) (fun s s' _ => Nec.stabilise_ok env fuel s s') s hrel hN cr () sd' hdbg

theorem writeVar_release (x : Nat) (f : Val → Val) (isSet : Bool) (s : State) (hrel : Release s) (hN : NecWF s)
    (cr : Option Nat) (a : Val) (sd' : State)
    (hdbg : (writeVar x f isSet).run.run (debugTwin s cr) = (.ok a, sd')) :
    (writeVar x f isSet).run.run s = (.ok a, erase sd') ∧ NecWF (erase sd') ∧ Release (erase sd') :=
  Sim.release (sim_writeVar x f isSet) (fun s s' a => Nec.writeVar_ok x f isSet s s' a) s hrel hN cr a sd' hdbg

theorem didSetVarWhileNotStabilising_release (x : Nat) (s : State) (hrel : Release s) (hN : NecWF s)
    (cr : Option Nat) (sd' : State)
    (hdbg : (didSetVarWhileNotStabilising x).run.run (debugTwin s cr) = (.ok (), sd')) :
    (didSetVarWhileNotStabilising x).run.run s = (.ok (), erase sd') ∧ NecWF (erase sd') ∧
      Release (erase sd') :=
  Sim.release (sim_didSetVarWhileNotStabilising x)
    (fun s s' _ => didSetVarWhileNotStabilising_ok x s s') s hrel hN cr () sd' hdbg

theorem subscribe_release (o hid : Nat) (s : State) (hrel : Release s) (hN : NecWF s)
    (cr : Option Nat) (a : Except ObsError Nat) (sd' : State)
    (hdbg : (subscribe o hid).run.run (debugTwin s cr) = (.ok a, sd')) :
    (subscribe o hid).run.run s = (.ok a, erase sd') ∧ NecWF (erase sd') ∧ Release (erase sd') :=
  Sim.release (sim_subscribe o hid) (fun s s' a => Nec.subscribe_ok o hid s s' a) s hrel hN cr a sd' hdbg

theorem unsubscribe_release (o token owner : Nat) (s : State) (hrel : Release s) (hN : NecWF s)
    (cr : Option Nat) (a : Except ObsError Unit) (sd' : State)
    (hdbg : (unsubscribe o token owner).run.run (debugTwin s cr) = (.ok a, sd')) :
    (unsubscribe o token owner).run.run s = (.ok a, erase sd') ∧ NecWF (erase sd') ∧ Release (erase sd') :=
  Sim.release (sim_unsubscribe o token owner) (fun s s' a => Nec.unsubscribe_ok o token owner s s' a)
    s hrel hN cr a sd' hdbg

theorem disallowFutureUse_release (o : Nat) (s : State) (hrel : Release s) (hN : NecWF s)
    (cr : Option Nat) (sd' : State) (hdbg : (disallowFutureUse o).run.run (debugTwin s cr) = (.ok (), sd')) :
    (disallowFutureUse o).run.run s = (.ok (), erase sd') ∧ NecWF (erase sd') ∧ Release (erase sd') :=
  Sim.release (sim_disallowFutureUse o) (fun s s' _ => Nec.disallowFutureUse_ok o s s') s hrel hN cr () sd' hdbg

theorem elabInstr_release (lv : Val) (i : Instr) (s : State) (hrel : Release s) (hN : NecWF s)
    (cr : Option Nat) (a : Option Nat) (sd' : State)
    (hdbg : (elabInstr [] lv i).run.run (debugTwin s cr) = (.ok a, sd')) :
    (elabInstr [] lv i).run.run s = (.ok a, erase sd') ∧ NecWF (erase sd') ∧ Release (erase sd') :=
  Sim.release (sim_elabInstr [] lv i) (fun s s' a => Nec.elabInstr_ok lv i s s' a) s hrel hN cr a sd' hdbg

theorem expertAddDependency_release (env : Env) (fuel n child : Nat) (cb : Bool) (s : State)
    (hrel : Release s) (hN : NecWF s) (cr : Option Nat) (a : Nat) (sd' : State)
    (hdbg : (expertAddDependency env fuel n child cb).run.run (debugTwin s cr) = (.ok a, sd')) :
    (expertAddDependency env fuel n child cb).run.run s = (.ok a, erase sd') ∧ NecWF (erase sd') ∧
      Release (erase sd') :=
  Sim.release (sim_expertAddDependency env fuel n child cb)
    (fun s s' a => Nec.expertAddDependency_ok env fuel n child cb s s' a) s hrel hN cr a sd' hdbg

theorem expertRemoveDependency_release (fuel n dep : Nat) (s : State)
    (hrel : Release s) (hN : NecWF s) (cr : Option Nat) (sd' : State)
    (hdbg : (expertRemoveDependency fuel n dep).run.run (debugTwin s cr) = (.ok (), sd')) :
    (expertRemoveDependency fuel n dep).run.run s = (.ok (), erase sd') ∧ NecWF (erase sd') ∧
      Release (erase sd') :=
  Sim.release (sim_expertRemoveDependency fuel n dep)
    (fun s s' _ => Nec.expertRemoveDependency_ok fuel n dep s s') s hrel hN cr () sd' hdbg

theorem recomputeOne_release (env : Env) (fuel n : Nat) (s : State) (hrel : Release s) (hN : NecWF s)
    (cr : Option Nat) (r : Option Nat) (sd' : State)
    (hdbg : (recomputeOne env fuel n).run.run (debugTwin s cr) = (.ok r, sd')) :
    (recomputeOne env fuel n).run.run s = (.ok r, erase sd') ∧ NecWF (erase sd') ∧ Release (erase sd') :=
  Sim.release (sim_recomputeOne env fuel n) (fun s s' r => recomputeOne_ok env fuel n s s' r)
    s hrel hN cr r sd' hdbg

theorem propagateInvalidity_release (fuel : Nat) (s : State) (hrel : Release s) (hN : NecWF s)
    (cr : Option Nat) (sd' : State) (hdbg : (propagateInvalidity fuel).run.run (debugTwin s cr) = (.ok (), sd')) :
    (propagateInvalidity fuel).run.run s = (.ok (), erase sd') ∧ NecWF (erase sd') ∧ Release (erase sd') :=
  Sim.release (sim_propagateInvalidity fuel) (fun s s' _ => propagateInvalidity_ok fuel s s')
    s hrel hN cr () sd' hdbg

/-- debug mode, every driver action (normal outcome) keeps the invariant -/
theorem stepAction_debug_ok (env : Env) (a : Action) (tokens : Array Nat) (s s' : State)
    (r : String × Array Nat) (hN : NecWF s) (hd : s.cfg.debug = true)
    (hr : (stepAction env a tokens).run.run s = (.ok r, s')) : NecWF s' ∧ s'.cfg.debug = true :=
  Nec.stepAction_ok env a tokens s s' r hN hd hr

/-- release mode, every driver action whose debug twin returns normally: same result, invariant kept -/
theorem stepAction_release_necwf (env : Env) (a : Action) (tokens : Array Nat) (s : State) (hrel : Release s)
    (hN : NecWF s) (cr : Option Nat) (r : String × Array Nat) (sd' : State)
    (hdbg : (stepAction env a tokens).run.run (debugTwin s cr) = (.ok r, sd')) :
    (stepAction env a tokens).run.run s = (.ok r, erase sd') ∧ NecWF (erase sd') ∧ Release (erase sd') :=
  NecRel.stepAction_release_necwf env a tokens s hrel hN cr r sd' hdbg

/-- whole histories from the initial state (all actions returning normally in the debug build) -/
theorem history_release (env : Env) (N : Nat) (as : List Action) (r : Array Nat) (sd' : State)
    (hdbg : (Nec.runActs env as #[]).run.run (State.init N true) = (.ok r, sd')) :
    (Nec.runActs env as #[]).run.run (State.init N false) = (.ok r, erase sd') ∧ NecWF (erase sd') ∧
      Release (erase sd') :=
  NecRel.runActs_release env N as r sd' hdbg

/-- C05 (b) in release mode: the parent handed back for direct recomputation is necessary and valid -/
theorem chain_is_necessary_release (env : Env) (fuel n p : Nat) (s : State) (hrel : Release s) (hN : NecWF s)
    (cr : Option Nat) (sd' : State)
    (hdbg : (recomputeOne env fuel n).run.run (debugTwin s cr) = (.ok (some p), sd')) :
    (recomputeOne env fuel n).run.run s = (.ok (some p), erase sd') ∧ NecWF (erase sd') ∧
      (erase sd').isNecessary p = true ∧ ((erase sd').nodeD p).valid = true :=
  ⟨(recomputeOne_release env fuel n s hrel hN cr _ sd' hdbg).1,
   (recomputeOne_release env fuel n s hrel hN cr _ sd' hdbg).2.1,
   (Nec.chain_is_necessary env fuel n p _ sd' (necWF_debugTwin hN cr) rfl hdbg).2.2⟩

/-! ## non-vacuity: a concrete release-mode history -/

/-- user functions of the examples: every function is "+ 1" on the integer view, no effects -/
def exEnv : Env :=
  { cexEnv with fn := fun _ vs => .int ((vs.headD .unit).toInt + 1), fnEff := fun _ _ => [] }

/-- the result state of the debug twin's run -/
def dbgRun {α} (x : M α) (s : State) : State := (x.run.run (debugTwin s none)).2

def r0 : State := State.init 4 false
/-- node 0: a var -/
def r1 : State := erase (dbgRun (elabInstr [] .unit (.var (.int 1))) r0)
/-- node 1: a map over node 0 -/
def r2 : State := erase (dbgRun (elabInstr [] .unit (.map 0 [.abs 0])) r1)
/-- a new observer on node 1 -/
def r3 : State := { r2 with observers := #[{ node := 1 }], newObservers := [0] }
/-- after the first stabilisation -/
def r4 : State := erase (dbgRun (stabilise exEnv 20) r3)
/-- after a write to the var -/
def r5 : State := erase (dbgRun (writeVar 0 (fun _ => .int 7)) r4)
/-- after the second stabilisation -/
def r6 : State := erase (dbgRun (stabilise exEnv 20) r5)

theorem ok_r0 : Release r0 ∧ NecWF r0 := ⟨release_init 4, Nec.necwf_init 4 false⟩

theorem step_r1 : (elabInstr [] .unit (.var (.int 1))).run.run r0 = (.ok (some 0), r1) ∧ NecWF r1 ∧ Release r1 :=
  elabInstr_release _ _ r0 ok_r0.1 ok_r0.2 none _ _ (run_ok_of _ _ (some 0) (by decide +kernel))

theorem step_r2 : (elabInstr [] .unit (.map 0 [.abs 0])).run.run r1 = (.ok (some 1), r2) ∧ NecWF r2 ∧ Release r2 :=
  elabInstr_release _ _ r1 step_r1.2.2 step_r1.2.1 none _ _ (run_ok_of _ _ (some 1) (by decide +kernel))

theorem ok_r3 : Release r3 ∧ NecWF r3 :=
  ⟨⟨rfl, rfl⟩, ⟨step_r2.2.1.e1, step_r2.2.1.e2, step_r2.2.1.e3, step_r2.2.1.e4,
    step_r2.2.1.kinds.congr (fun _ => rfl) rfl rfl rfl⟩⟩

/-- the first release-mode stabilisation returns normally and keeps the invariant -/
theorem step_r4 : (stabilise exEnv 20).run.run r3 = (.ok (), r4) ∧ NecWF r4 ∧ Release r4 :=
  stabilise_release _ _ r3 ok_r3.1 ok_r3.2 none _ (run_ok_of _ _ () (by decide +kernel))

/-- the release-mode write returns normally and keeps the invariant -/
theorem step_r5 : (writeVar 0 (fun _ => .int 7)).run.run r4 = (.ok (.int 1), r5) ∧ NecWF r5 ∧ Release r5 :=
  writeVar_release _ _ _ r4 step_r4.2.2 step_r4.2.1 none _ _ (run_ok_of _ _ (Val.int 1) (by decide +kernel))

/-- the second release-mode stabilisation returns normally and keeps the invariant -/
theorem step_r6 : (stabilise exEnv 20).run.run r5 = (.ok (), r6) ∧ NecWF r6 ∧ Release r6 :=
  stabilise_release _ _ r5 step_r5.2.2 step_r5.2.1 none _ (run_ok_of _ _ () (by decide +kernel))

/-- the history is not trivial: debug is off throughout, the observed node and its input are necessary, the
write queued the var, and the values are recomputed (7 and 8) -/
example : r6.cfg.debug = false ∧ r4.isNecessary 1 = true ∧ r4.isNecessary 0 = true ∧
    r5.rch.queues = #[[], [0], [], [], []] ∧
    (r4.nodes.map (·.value)) = #[some (.int 1), some (.int 2)] ∧
    (r6.nodes.map (·.value)) = #[some (.int 7), some (.int 8)] :=
  ⟨rfl, by decide +kernel, by decide +kernel, by decide +kernel, by decide +kernel, by decide +kernel⟩

/-- `history_release` on a driver-level history: create a var and a map over it, observe the map, stabilise,
set the var, subscribe, stabilise again — the release run returns normally and ends in a `NecWF` state whose
values are 7 and 8 -/
def exHist : List Action :=
  [.create (.var (.int 1)), .create (.map 0 [.outer 0]), .observe (.outer 1), .stabilise, .set 0 (.int 7),
   .subscribe 0 0, .stabilise]

theorem exHist_release :
    (Nec.runActs exEnv exHist #[]).run.run (State.init 4 false)
      = (.ok #[0], erase ((Nec.runActs exEnv exHist #[]).run.run (State.init 4 true)).2) ∧
    NecWF (erase ((Nec.runActs exEnv exHist #[]).run.run (State.init 4 true)).2) ∧
    Release (erase ((Nec.runActs exEnv exHist #[]).run.run (State.init 4 true)).2) :=
  history_release exEnv 4 exHist #[0] _ (run_ok_of _ _ #[0] (by decide +kernel))

example : ((erase ((Nec.runActs exEnv exHist #[]).run.run (State.init 4 true)).2).nodes.map (·.value))
    = #[some (.int 7), some (.int 8)] := by decide +kernel

/-! ## finding: the release build continues past a broken invariant (panic outcome) -/

/-- the body of the bind returns the var itself (node 0) -/
def bEnv : Env :=
  { cexEnv with fn := fun _ _ => .unit, fnEff := fun _ _ => [], body := fun _ _ => { instrs := [], ret := .abs 0 } }

def c0 : State := State.init 4 false
/-- node 0: a var -/
def c1 : State := erase (dbgRun (elabInstr [] .unit (.var (.int 1))) c0)
/-- nodes 1, 2: lhs-change and main node of a bind on the var -/
def c2 : State := erase (dbgRun (elabInstr [] .unit (.bind 0 (.abs 0))) c1)
/-- node 3: a map over the LHS-CHANGE node (operand `.abs 1`) -/
def c3 : State := erase (dbgRun (elabInstr [] .unit (.map 0 [.abs 1])) c2)
/-- a new observer on node 3: the lhs-change node will become necessary, the bind-main node 2 will not -/
def c4 : State := { c3 with observers := #[{ node := 3 }], newObservers := [0] }
/-- what the release-mode `stabilise` leaves behind -/
def cBad : State := ((stabilise bEnv 30).run.run c4).2

theorem step_c1 : (elabInstr [] .unit (.var (.int 1))).run.run c0 = (.ok (some 0), c1) ∧ NecWF c1 ∧ Release c1 :=
  elabInstr_release _ _ c0 (release_init 4) (Nec.necwf_init 4 false) none _ _
    (run_ok_of _ _ (some 0) (by decide +kernel))
theorem step_c2 : (elabInstr [] .unit (.bind 0 (.abs 0))).run.run c1 = (.ok (some 2), c2) ∧ NecWF c2 ∧ Release c2 :=
  elabInstr_release _ _ c1 step_c1.2.2 step_c1.2.1 none _ _ (run_ok_of _ _ (some 2) (by decide +kernel))
theorem step_c3 : (elabInstr [] .unit (.map 0 [.abs 1])).run.run c2 = (.ok (some 3), c3) ∧ NecWF c3 ∧ Release c3 :=
  elabInstr_release _ _ c2 step_c2.2.2 step_c2.2.1 none _ _ (run_ok_of _ _ (some 3) (by decide +kernel))
theorem ok_c4 : Release c4 ∧ NecWF c4 :=
  ⟨⟨rfl, rfl⟩, ⟨step_c3.2.1.e1, step_c3.2.1.e2, step_c3.2.1.e3, step_c3.2.1.e4,
    step_c3.2.1.kinds.congr (fun _ => rfl) rfl rfl rfl⟩⟩

/-- From the release state `c4` (which satisfies `NecWF`): the debug build panics at the assertion
`node:state_add_parent:parent-necessary` and the var node 0 has the single parent 1; the release build skips
the assertion, records the unnecessary bind-main node 2 as a parent of node 0 (breaking `e2`), continues, and
stops only at the hard panic `adjust_heights_heap:add:no-queue`, leaving a state that violates `NecWF`. -/
theorem release_continues_past_broken_invariant :
    Release c4 ∧ NecWF c4 ∧
    (match ((stabilise bEnv 30).run.run (debugTwin c4 none)).1 with
      | .error (.site m) => m == "node:state_add_parent:parent-necessary" | _ => false) = true ∧
    (((stabilise bEnv 30).run.run (debugTwin c4 none)).2.nodeD 0).parents = [(1, 0)] ∧
    (match ((stabilise bEnv 30).run.run c4).1 with
      | .error (.site m) => m == "adjust_heights_heap:add:no-queue" | _ => false) = true ∧
    (cBad.nodeD 0).parents = [(1, 0), (2, 1)] ∧ cBad.isNecessary 2 = false ∧ ¬ NecWF cBad := by
  have hp : (cBad.nodeD 0).parents = [(1, 0), (2, 1)] := by decide +kernel
  have hn : cBad.isNecessary 2 = false := by decide +kernel
  refine ⟨ok_c4.1, ok_c4.2, by decide +kernel, by decide +kernel, by decide +kernel, hp, hn, fun h => ?_⟩
  have := h.e2 0 2 1 (by rw [hp]; simp)
  rw [hn] at this
  cases this

end IncrVerif.Props.C05Release
