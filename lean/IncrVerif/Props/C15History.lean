import IncrVerif.Proofs.MapOld35
/-!
# C15 (and C01) for whole histories of programs with `map_with_old` nodes and incremental-map operators

Extension of `Props/C01History.lean` (whole histories of static programs) and `Props/C15.lean` (every diff-based operator
equals its non-incremental definition on every input SEQUENCE) to the fragment STATIC + `map_with_old`: after every
`stabilise` of a history every in-use observer reads the from-scratch evaluation in which a `map_with_old` node evaluates
to the plain function of its machine — in particular the observer of an `incr_filter_mapi` / `incr_unordered_fold` /
`incr_merge` / `incr_partition_mapi` output reads `filterMapSpec` / `ufoldSpecSum` / `mergeSpec'` / `partitionSpec` of the
CURRENT input map(s), for any sequence of edits and across periods in which the operator was unobserved.

THE MACHINE CONTRACT (`Proofs/MapOld2.lean`).  `env.withOld g σ old x = (σ', new, did)`: closure state, previous output,
input ↦ new closure state, new output, "did the output change".  `MReach env C g σ old`: `(σ, old)` is reachable from the
state of a fresh node (`σ = .unit`, `old = none`) by running on inputs satisfying the value predicate `C`.
`GoodMachine env C g spec`:
* `out`: from ANY reachable state, running on `x` (with `C x`) outputs `spec x`;
* `flag`: `did = false` only if `old = some (spec x)` — or `old = none` (a first run may report "no change": `incr_merge`
  does so on two empty maps; harmless, see below).  `did = true` with an equal output is allowed (dependants re-run).
`ValOK env C sp`: `C` ("well-formed value"; for the operators: `Canon` = every map is strictly sorted) is kept by `env.fn`,
`env.foldStep`, the machines' functions `sp g`, pairing, and holds of integers.

FRAGMENT (`MapOldH.WAction env C sp a`).  `create` of `const v`, `var v` (`C v`), `map f args` (`f < 1000003`; a user
function `f < fnZip` without side effects), `fold f init cs` (`C init`), `zip`, `mapWithOld g i` and the composite
`mapOp op` (conv → map_with_old → conv; for merge conv, conv → zip → map_with_old → conv) for a machine id in range
(`WId g`: `g < 400000` or `opBase ≤ g < opBase + 400000`) that satisfies the contract for `sp g`; operands name
top-level nodes; `observe` (top-level node), `cloneObs`, `dropObs`, `disallow`; `set`/`replace` (written value satisfies
`C`), `modify`, `update`, `replaceWith`, `get`; `stabilise`, `isStable`, `stats`.  NOT in the fragment: bind, map_ref,
expert nodes, custom cutoffs, effects, subscriptions, memoised calls, per-key operators, `dropVar`/`dropHandle`/`dropAll`,
`setMaxHeight`, faults.  Both `cfg.debug` settings.

METHOD (as `Props/C01MapRef.lean`).  `virt s`: every `mapWithOld g i` node becomes the static node
`map (woBase + enc g) [i]` (same stored value); `virtEnv env sp` interprets these ids as `sp g`.  The actual engine
SIMULATES the static engine on the virtual state (`Proofs/MapOld3…9, 15`) for everything except the recompute step of a
map_with_old node, whose effect on the virtual state is described directly by `Sched.StepRel` (`MapOld12`): the stored
output is `sp g` of the input's value by `GoodMachine.out`, and `did = false` leaves the stored value unchanged by
`GoodMachine.flag`.  A first run with `did = false` is handled by patching the virtual pre-state (`MapOld10`: pretending
the node already stored the value keeps `Sched.Inv`, because every parent of a valueless node is stale).
THE VALUE-LEVEL INVARIANT `MapOldH.MInv env C s`: stored node values, variable values and literals satisfy `C`; for every
map_with_old node `(closure state, stored output)` is a reachable machine state (`MReach`).  It is kept because nothing
but the node's own recompute writes `value`/`oldState` of a map_with_old node (frames `MapOld16, 17`; there is no
invalidation in the fragment).  This is the formal content of "the closure state is the state after running on the input
the node was last recomputed with": the contract quantifies over ALL reachable machine states, so a node that was
unobserved while its input changed several times, and then diffs against the input it LAST RAN ON, still outputs `spec`
of the current input; that it IS recomputed when re-observed follows from the staleness/scheduling invariants of the
virtual state (`Quiet.QInv`: non-stale nodes — necessary or not — are consistent with the current values of their inputs).

PROVED HERE (for the model; partial correctness: every statement assumes that the call returns `(.ok _, s')`).
W1, abstract machines.
* `recomputeOne_inv`, `drainHeap_values` (M1): the drain invariant `MapOldH.DInvW` through one step / the whole drain;
  afterwards every necessary node reads `evalW`.
* `stabilise_pending`, `stabilise_reads`, `action_keeps` (M2); `init_inv`, `history_inv`, `history_every_stabilise`
  (M3): every state of a history of the fragment satisfies `MapOldH.QInvW`; after every `stabilise` every in-use observer
  reads `MapOldH.evalW` (`mapWithOld g i ↦ sp g (evalW i)`) of its node on the current variable values, no necessary
  node is stale.
W2, the operator machines of `opWithOld` (`Proofs/MapOld26…29`).
* `operators_good`: every operator closure (`g ≥ opBase`: filter-map, the four flag combinations of the sum fold — whose
  `add`/`remove`/`update` satisfy the invertibility laws `UFoldLaws` of `Props/C15.lean` —, merge, partition) satisfies
  the contract for its non-incremental definition `opSpec d g` on canonical values; `identity_machines_good`: `echo`,
  `flag true` and undefined user machines compute the identity; `toEnv_closed : ValOK d.toEnv Canon (machSpec d)`.
  NOT a good machine: `sum` (its output depends on the history, not on the current input) and `flag false`.
* `mapop_history_every_stabilise`: the whole-history theorem for histories whose actions pass the decidable test
  `okAction d`.
* `filter_map_reads`, `fold_reads`, `partition_reads`, `merge_reads`: a history = prefix, creation of the operator over
  top-level variable(s), arbitrary further actions of the fragment (edits, observing, un-observing, …), a `stabilise`:
  after it every in-use observer of the operator's output node reads the operator's definition applied to the CURRENT
  value(s) of the variable(s).
W3, C17 for whole histories (`Proofs/MapOld30…34`).
* `operator_step`: in ANY state of a drain that satisfies the drain invariant, the recompute step of an operator node
  logs exactly the calls `opCalls d g σ old x` (then notification noise only), where `x` is the current value of its
  input and `(σ, old)` — closure state and stored output — is the state of a fresh node or `(x0, opSpec d g x0)` for the
  canonical input `x0` the operator LAST RAN ON.  `drain_steps`: every `recomputeOne` of a `drainHeap` that starts with the
  drain invariant (the drain of every `stabilise` of a history does: `stabilise_pending … .drain`) happens in such a state.
* `filter_map_step_calls`: hence a filter-map node that has run before calls the user function EXACTLY for the
  bindings `k ↦ v` of the current input that the input it last ran on did not hold (an `↔`; never for removed or
  untouched keys); `fold_step_calls`, `merge_step_calls`, `partition_step_calls`: every logged call names a key whose
  binding differs between the two inputs; `same_input_no_calls`: an operator re-run on the input it last ran on calls
  nothing.
* Non-vacuity (`decide +kernel`): `histFm` (filter-map and fold observed; input edited; filter-map un-observed; input
  edited twice; re-observed), `histMerge` (merge of two initially EMPTY maps — the first-run-`false` case —, edited,
  un-observed, both edited, re-observed; partition) run, pass `okAction`, and read the definitions' values.

ASSUMED / NOT PROVED.  Partial correctness throughout (no claim that histories of the fragment never panic).  Values:
every literal and written value must be `Canon` (sorted maps): `fnIdent` is the identity in the model while the Rust
harness converts into a `BTreeMap`, so for non-canonical map values model and implementation would disagree (FINDINGS
MF-1).  The history PARSER normalises map literals (`canonPairs`), and `parsed_values_canonical` proves that every parsed
value is `Canon`, so every parsed history meets the hypothesis; it remains a hypothesis for `Action` lists built by hand.
Machine ids outside `WId`, user function ids `≥ 1000003`, operands other than top-level names are outside the fragment.
The operators' input in the `*_reads` theorems is a variable (for other input nodes `reads_unary` gives `sp g` of the
from-scratch value of the input node).
W3 is proved per operator STEP of a reachable drain state, not as a statement about the whole event log of a `stabilise`
(`drain_steps` is the induction principle that connects the two: every `recomputeOne` of the drain of a `stabilise` of a
history happens in a state with `DInvW`); for fold/merge/partition only "every call names a differing key" (no
converse), for the fold not the logged accumulator strings.
-/
namespace IncrVerif.Props.C15History
open IncrVerif IncrVerif.Engine IncrVerif.Driver IncrVerif.MapOps IncrVerif.Proofs IncrVerif.Proofs.Sched
open IncrVerif.Proofs.Quiet IncrVerif.Proofs.MapOldH

/-! ## W1: abstract machines -/

/-- **M1, one `recomputeOne`.** On the current node `n` of the drain invariant a successful `recomputeOne`
re-establishes the invariant with the handed-over parent (if any) as the new current node. -/
theorem recomputeOne_inv {env : Env} {C : Val → Prop} {sp : Nat → Val → Val} {fuel n : Nat} {s s' : State}
    {r : Option Nat} (V : ValOK env C sp) (D : DInvW env C sp s (some n))
    (h : (recomputeOne env fuel n).run.run s = (.ok r, s')) :
    DInvW env C sp s' r ∧ Frame (virt s) (virt s') := by
  obtain ⟨D', f, -⟩ := recomputeOneW_inv V D h
  exact ⟨D', f.frame⟩

/-- **M1: the drain.** After a successful `drainHeap` from the drain invariant: the drain invariant, an empty heap,
unchanged variables, and every necessary node is still necessary, not stale, and READS its from-scratch value. -/
theorem drainHeap_values {env : Env} {C : Val → Prop} {sp : Nat → Val → Val} {fuel : Nat} {s s' : State}
    (V : ValOK env C sp) (D : DrainInvW env C sp s) (h : (drainHeap env fuel).run.run s = (.ok (), s')) :
    DrainInvW env C sp s' ∧ s'.rch.length = 0 ∧ s'.vars = s.vars ∧
      ∀ n, s.isNecessary n = true → ∀ k, (s.nodeD n).height.toNat < k →
        s'.isNecessary n = true ∧ s'.isStale n = false ∧ s'.value env n = evalW env sp s k n ∧
          (evalW env sp s k n).isSome = true := by
  obtain ⟨D', he, -, hv, hall⟩ := drainHeapW_values V D h
  exact ⟨D', he, hv, hall⟩

/-- **M2, `stabilise` with pending observers.** See `MapOldH.StabilisedW`: `inv : QInvW env C sp s'`, `virt` (the
conclusions of `C01History.stabilise_pending` for the virtual states), `values` (every necessary node is not stale and
READS `evalW`), `drain` (the drain starts and ends with the drain invariant of M1). -/
theorem stabilise_pending {env : Env} {C : Val → Prop} {sp : Nat → Val → Val} {fuel : Nat} {s s' : State}
    (V : ValOK env C sp) (Q : QInvW env C sp s) (h : (stabilise env fuel).run.run s = (.ok (), s')) :
    StabilisedW env C sp fuel s s' :=
  stabiliseW V Q h

/-- after a `stabilise` every in-use observer reads the from-scratch value of its node; no observer is pending; no
necessary node is stale -/
theorem stabilise_reads {env : Env} {C : Val → Prop} {sp : Nat → Val → Val} {fuel : Nat} {s s' : State}
    (V : ValOK env C sp) (Q : QInvW env C sp s) (h : (stabilise env fuel).run.run s = (.ok (), s')) :
    ReadsOKW env sp s' ∧ ObsSettled s' ∧ ∀ n, s'.isNecessary n = true → s'.isStale n = false :=
  stabilisedW_reads (stabiliseW V Q h)

/-- **M2.** Every API action of the fragment that returns keeps the invariant. -/
theorem action_keeps {env : Env} {C : Val → Prop} {sp : Nat → Val → Val} {s s' : State} {a : Action}
    {tokens : Array Nat} {r : String × Array Nat} (V : ValOK env C sp) (Q : QInvW env C sp s)
    (ha : WAction env C sp a) (h : (stepAction env a tokens).run.run s = (.ok r, s')) : QInvW env C sp s' :=
  stepW V Q ha h

/-- what the invariant consists of -/
theorem inv_parts {env : Env} {C : Val → Prop} {sp : Nat → Val → Val} {s : State} (Q : QInvW env C sp s) :
    WFrag env (Good env C sp) s ∧ QInv (virtEnv env sp) (virt s) ∧ MInv env C s := ⟨Q.frag, Q.q, Q.m⟩

theorem init_inv (env : Env) (C : Val → Prop) (sp : Nat → Val → Val) (maxHeight : Nat) (debug : Bool) :
    QInvW env C sp (State.init maxHeight debug) :=
  init_invW env C sp maxHeight debug

theorem history_inv {env : Env} {C : Val → Prop} {sp : Nat → Val → Val} {N : Nat} {d : Bool} {acts : List Action}
    {s : State} {tk : Array Nat} (V : ValOK env C sp) (ha : ∀ a, a ∈ acts → WAction env C sp a)
    (h : runActions env acts (State.init N d) #[] = .ok (s, tk)) : QInvW env C sp s :=
  historyW V ha h

/-- **M3 = W1.** At every `stabilise` of a history of actions of the fragment static + map_with_old (machines
satisfying the contract) that runs from the initial state: afterwards every observer in use reads the from-scratch
value `evalW` of its node (`mapWithOld g i ↦ sp g (evalW i)`), no necessary node is stale. -/
theorem history_every_stabilise {env : Env} {C : Val → Prop} {sp : Nat → Val → Val} {N : Nat} {d : Bool}
    {as bs : List Action} {s : State} {tk : Array Nat} (V : ValOK env C sp)
    (ha : ∀ a, a ∈ as ++ Action.stabilise :: bs → WAction env C sp a)
    (h : runActions env (as ++ Action.stabilise :: bs) (State.init N d) #[] = .ok (s, tk)) :
    ∃ s1 tk1 s2, runActions env as (State.init N d) #[] = .ok (s1, tk1) ∧ QInvW env C sp s1 ∧
      (stabilise env fuelDefault).run.run s1 = (.ok (), s2) ∧ QInvW env C sp s2 ∧
      ReadsOKW env sp s2 ∧ ObsSettled s2 ∧ (∀ n, s2.isNecessary n = true → s2.isStale n = false) ∧
      runActions env bs s2 tk1 = .ok (s, tk) := by
  obtain ⟨s1, tk1, s2, h1, Q1, h2, R, h3, h4, h5, h6⟩ := historyW_stabilise V ha h
  exact ⟨s1, tk1, s2, h1, Q1, h2, R.inv, h3, h4, h5, h6⟩

/-! ## W2: the operator machines -/

/-- **every operator closure satisfies the machine contract** for its non-incremental definition, on canonical values -/
theorem operators_good (d : Defs) (g : Nat) (hg : opBase ≤ g) : GoodMachine d.toEnv Canon g (opSpec d g) :=
  opGood d g hg

/-- the closure state of an operator is the input it last ran on, its stored output the definition of that input -/
theorem operator_states (d : Defs) (g : Nat) (hg : opBase ≤ g) (σ : Val) (old : Option Val)
    (h : MReach d.toEnv Canon g σ old) :
    (σ = .unit ∧ old = none) ∨ (Canon σ ∧ old = some (opSpec d g σ)) :=
  (opSt_iff d g σ old).1 (opReach d g hg σ old h)

theorem identity_machines_good (d : Defs) (g : Nat) (hg : g < opBase)
    (h : d.olds.lookup g = some .echo ∨ d.olds.lookup g = some (.flag true) ∨ d.olds.lookup g = none) :
    GoodMachine d.toEnv Canon g id :=
  echoGood d g hg h

theorem toEnv_closed (d : Defs) : ValOK d.toEnv Canon (machSpec d) := valOK_toEnv d

/-- what the operator ids of the `mapOp` instruction compute -/
theorem opSpec_table (d : Defs) (m : Nat) (x : Val) :
    (m < 100000 → opSpec d (opBase + m) x = .map (filterMapSpec (opFmFn (d.opParams m)) (asMap x))) ∧
    (m < 10000 → ∀ rev upd : Bool,
      opSpec d (opBase + 100000 + (if rev then 20000 else 0) + (if upd then 10000 else 0) + m) x =
        .int (ufoldSpecSum (opG (d.opParams m)) (d.opParams m).c (asMap x))) ∧
    (m < 100000 → ∀ a b, opSpec d (opBase + 200000 + m) (.pair a b) =
      .map (mergeSpec' (opMergeFn (d.opParams m)) (asMap a) (asMap b))) ∧
    (m < 100000 → opSpec d (opBase + 300000 + m) x =
      .pair (.map (partitionSpec (opPartFn (d.opParams m)) (asMap x)).1)
        (.map (partitionSpec (opPartFn (d.opParams m)) (asMap x)).2)) :=
  ⟨fun h => opSpec_fm d _ m (decodeOp_fm h) x, fun h rev upd => opSpec_fold d _ m rev upd (decodeOp_fold rev upd h) x,
   fun h a b => by rw [opSpec_merge d _ m (decodeOp_merge h)]; rfl, fun h => opSpec_part d _ m (decodeOp_part h) x⟩

/-- **W2: whole histories with map operators.** For a definitions table `d` and a history whose actions pass the
decidable test `okAction d`: at every `stabilise`, afterwards every observer in use reads `evalW` with
`mapWithOld g i ↦ machSpec d g (evalW i)` (`machSpec d g = opSpec d g` for operator closures). -/
theorem mapop_history_every_stabilise (d : Defs) {N : Nat} {dbg : Bool} {as bs : List Action} {s : State}
    {tk : Array Nat} (ha : ∀ a, a ∈ as ++ Action.stabilise :: bs → okAction d a = true)
    (h : runActions d.toEnv (as ++ Action.stabilise :: bs) (State.init N dbg) #[] = .ok (s, tk)) :
    ∃ s1 tk1 s2, runActions d.toEnv as (State.init N dbg) #[] = .ok (s1, tk1) ∧
      (stabilise d.toEnv fuelDefault).run.run s1 = (.ok (), s2) ∧ DInv d s2 ∧
      ReadsOKW d.toEnv (machSpec d) s2 ∧ ObsSettled s2 ∧ (∀ n, s2.isNecessary n = true → s2.isStale n = false) ∧
      runActions d.toEnv bs s2 tk1 = .ok (s, tk) := by
  obtain ⟨s1, tk1, s2, h1, -, h2, Q2, h3, h4, h5, h6⟩ :=
    history_every_stabilise (valOK_toEnv d) (fun a hm => okAction_sound (ha a hm)) h
  exact ⟨s1, tk1, s2, h1, h2, Q2, h3, h4, h5, h6⟩

/-- **C15, `incr_filter_mapi`.** History = `pre`; creation of the operator `M m` over the top-level variable `n_k`
(node `x`, cell `c`); arbitrary further actions `mid` of the fragment; a `stabilise`.  Then every in-use observer of the
operator's output node reads `filterMapSpec` of the CURRENT value of the variable. -/
theorem filter_map_reads {d : Defs} {N : Nat} {dbg : Bool} {pre mid : List Action} {s0 s1 sm s2 : State}
    {tk0 tkm : Array Nat} {r1 : String × Array Nat} {m k x c o : Nat} {ob : ObsRec} {vc : VarCell} (hm : m < 100000)
    (hpre : ∀ a, a ∈ pre → okAction d a = true) (hmid : ∀ a, a ∈ mid → okAction d a = true)
    (h0 : runActions d.toEnv pre (State.init N dbg) #[] = .ok (s0, tk0))
    (hk : s0.top[k]? = some x) (hx : (s0.nodeD x).kind = .var c)
    (h1 : (stepAction d.toEnv (.create (.mapOp (.fm m (.outer k)))) tk0).run.run s0 = (.ok r1, s1))
    (h2 : runActions d.toEnv mid s1 r1.2 = .ok (sm, tkm))
    (h3 : (stabilise d.toEnv fuelDefault).run.run sm = (.ok (), s2))
    (ho : s2.observers[o]? = some ob) (hu : ob.state = .inUse) (hon : ob.node = s0.nodes.size + 2)
    (hc : s2.vars[c]? = some vc) :
    s2.tryGetValue d.toEnv o = .ok (.map (filterMapSpec (opFmFn (d.opParams m)) (asMap vc.value))) :=
  fm_history_reads hm (fun a h => okAction_sound (hpre a h)) (fun a h => okAction_sound (hmid a h)) h0 hk hx h1 h2 h3
    ho hu hon hc

/-- **C15, `incr_unordered_fold`** (sum fold, every combination of revert-to-init and custom `update`). -/
theorem fold_reads {d : Defs} {N : Nat} {dbg : Bool} {pre mid : List Action} {s0 s1 sm s2 : State}
    {tk0 tkm : Array Nat} {r1 : String × Array Nat} {m k x c o : Nat} {ob : ObsRec} {vc : VarCell} {rev upd : Bool}
    (hm : m < 10000)
    (hpre : ∀ a, a ∈ pre → okAction d a = true) (hmid : ∀ a, a ∈ mid → okAction d a = true)
    (h0 : runActions d.toEnv pre (State.init N dbg) #[] = .ok (s0, tk0))
    (hk : s0.top[k]? = some x) (hx : (s0.nodeD x).kind = .var c)
    (h1 : (stepAction d.toEnv (.create (.mapOp (.fold m rev upd (.outer k)))) tk0).run.run s0 = (.ok r1, s1))
    (h2 : runActions d.toEnv mid s1 r1.2 = .ok (sm, tkm))
    (h3 : (stabilise d.toEnv fuelDefault).run.run sm = (.ok (), s2))
    (ho : s2.observers[o]? = some ob) (hu : ob.state = .inUse) (hon : ob.node = s0.nodes.size + 2)
    (hc : s2.vars[c]? = some vc) :
    s2.tryGetValue d.toEnv o = .ok (.int (ufoldSpecSum (opG (d.opParams m)) (d.opParams m).c (asMap vc.value))) :=
  fold_history_reads hm (fun a h => okAction_sound (hpre a h)) (fun a h => okAction_sound (hmid a h)) h0 hk hx h1 h2
    h3 ho hu hon hc

/-- **C15, `incr_partition_mapi`.** -/
theorem partition_reads {d : Defs} {N : Nat} {dbg : Bool} {pre mid : List Action} {s0 s1 sm s2 : State}
    {tk0 tkm : Array Nat} {r1 : String × Array Nat} {m k x c o : Nat} {ob : ObsRec} {vc : VarCell} (hm : m < 100000)
    (hpre : ∀ a, a ∈ pre → okAction d a = true) (hmid : ∀ a, a ∈ mid → okAction d a = true)
    (h0 : runActions d.toEnv pre (State.init N dbg) #[] = .ok (s0, tk0))
    (hk : s0.top[k]? = some x) (hx : (s0.nodeD x).kind = .var c)
    (h1 : (stepAction d.toEnv (.create (.mapOp (.part m (.outer k)))) tk0).run.run s0 = (.ok r1, s1))
    (h2 : runActions d.toEnv mid s1 r1.2 = .ok (sm, tkm))
    (h3 : (stabilise d.toEnv fuelDefault).run.run sm = (.ok (), s2))
    (ho : s2.observers[o]? = some ob) (hu : ob.state = .inUse) (hon : ob.node = s0.nodes.size + 2)
    (hc : s2.vars[c]? = some vc) :
    s2.tryGetValue d.toEnv o =
      .ok (.pair (.map (partitionSpec (opPartFn (d.opParams m)) (asMap vc.value)).1)
        (.map (partitionSpec (opPartFn (d.opParams m)) (asMap vc.value)).2)) :=
  part_history_reads hm (fun a h => okAction_sound (hpre a h)) (fun a h => okAction_sound (hmid a h)) h0 hk hx h1 h2
    h3 ho hu hon hc

/-- **C15, `incr_merge`** over two top-level variables (the `zip` input): the observer reads the key-wise merge
`mergeSpec'` of the CURRENT values of both. -/
theorem merge_reads {d : Defs} {N : Nat} {dbg : Bool} {pre mid : List Action} {s0 s1 sm s2 : State}
    {tk0 tkm : Array Nat} {r1 : String × Array Nat} {m kx ky x y cx cy o : Nat} {ob : ObsRec} {vx vy : VarCell}
    (hm : m < 100000)
    (hpre : ∀ a, a ∈ pre → okAction d a = true) (hmid : ∀ a, a ∈ mid → okAction d a = true)
    (h0 : runActions d.toEnv pre (State.init N dbg) #[] = .ok (s0, tk0))
    (hkx : s0.top[kx]? = some x) (hky : s0.top[ky]? = some y)
    (hx : (s0.nodeD x).kind = .var cx) (hy : (s0.nodeD y).kind = .var cy)
    (h1 : (stepAction d.toEnv (.create (.mapOp (.merge m (.outer kx) (.outer ky)))) tk0).run.run s0 = (.ok r1, s1))
    (h2 : runActions d.toEnv mid s1 r1.2 = .ok (sm, tkm))
    (h3 : (stabilise d.toEnv fuelDefault).run.run sm = (.ok (), s2))
    (ho : s2.observers[o]? = some ob) (hu : ob.state = .inUse) (hon : ob.node = s0.nodes.size + 4)
    (hcx : s2.vars[cx]? = some vx) (hcy : s2.vars[cy]? = some vy) :
    s2.tryGetValue d.toEnv o = .ok (.map (mergeSpec' (opMergeFn (d.opParams m)) (asMap vx.value) (asMap vy.value))) :=
  merge_history_reads hm (fun a h => okAction_sound (hpre a h)) (fun a h => okAction_sound (hmid a h)) h0 hkx hky hx hy
    h1 h2 h3 ho hu hon hcx hcy

/-- every value the history parser produces is canonical (map literals are sorted and duplicate-free), so the `Canon`
requirements of `okAction` hold for every parsed history -/
theorem parsed_values_canonical {str : String} {v : Val} (h : parseVal str = some v) : Canon v := parseVal_canon h

/-! ## W3: C17 at every operator step of a reachable drain state -/

/-- **C17, engine level.** The recompute step of an operator node `n` (input node `i`) in a state with the drain
invariant: the log grows by the `inv` events of exactly the calls `opCalls d g σ old x` (`callEvents`, most recent first)
and then by notification noise only; `x` is the current value of the input, `(σ, old)` the node's closure state and stored
output — the state of a fresh node, or `(x0, opSpec d g x0)` with `x0` the canonical input the operator last ran on. -/
theorem operator_step {d : Defs} {fuel n g i : Nat} {s s' : State} {r : Option Nat}
    (D : DInvW d.toEnv Canon (machSpec d) s (some n)) (hk : (s.nodeD n).kind = .mapWithOld g i)
    (hg : opBase ≤ g) (h : (recomputeOne d.toEnv fuel n).run.run s = (.ok r, s')) :
    ∃ x tail, (s.nodeD i).value = some x ∧ Canon x ∧
      s'.log = tail ++ callEvents n (opCalls d g (s.nodeD n).oldState (s.nodeD n).value x) ++ s.log ∧
      (∀ e, e ∈ tail → Step.Noise e) ∧
      (((s.nodeD n).oldState = .unit ∧ (s.nodeD n).value = none) ∨
        (Canon (s.nodeD n).oldState ∧ (s.nodeD n).value = some (opSpec d g (s.nodeD n).oldState))) :=
  operator_step_calls D hk hg h

/-- **every step of a drain happens in a state with the drain invariant**: a reflexive, transitive relation that holds
across every pop and across every `recomputeOne` on the current node of a state with `DInvW` holds across the whole
`drainHeap`.  (The drain of every `stabilise` of a history starts with the drain invariant: `StabilisedW.drain`.) -/
theorem drain_steps {env : Env} {C : Val → Prop} {sp : Nat → Val → Val} (V : ValOK env C sp)
    (P : State → State → Prop) (hrefl : ∀ s, P s s) (htrans : ∀ a b c, P a b → P b c → P a c)
    (hpop : ∀ s r s1, DInvW env C sp s none → rchRemoveMin.run.run s = (.ok r, s1) → P s s1)
    (hstep : ∀ s n fuel r s', DInvW env C sp s (some n) → (recomputeOne env fuel n).run.run s = (.ok r, s') → P s s')
    {fuel : Nat} {s s' : State} (D : DrainInvW env C sp s) (h : (drainHeap env fuel).run.run s = (.ok (), s')) :
    P s s' :=
  drain_steps_ind V P hrefl htrans hpop hstep fuel s s' D h

/-- **C17, `incr_filter_mapi`.** A filter-map node that has run before, recomputed in a state with the drain invariant,
logs one `M{m}.fn` call for EXACTLY the bindings `k ↦ v` of the CURRENT input `x` that the input `x0` it LAST RAN ON (its
closure state) did not hold. -/
theorem filter_map_step_calls {d : Defs} {fuel n g i m : Nat} {s s' : State} {r : Option Nat}
    (D : DInvW d.toEnv Canon (machSpec d) s (some n)) (hk : (s.nodeD n).kind = .mapWithOld g i) (hg : opBase ≤ g)
    (hd : decodeOp g = (.fm, m)) (hran : (s.nodeD n).value ≠ none)
    (h : (recomputeOne d.toEnv fuel n).run.run s = (.ok r, s')) :
    ∃ x x0 tail calls, (s.nodeD i).value = some x ∧ (s.nodeD n).oldState = x0 ∧
      s'.log = tail ++ callEvents n calls ++ s.log ∧ (∀ e, e ∈ tail → Step.Noise e) ∧
      ∀ c, c ∈ calls ↔ ∃ k v, c = (s!"M{m}.fn", [.int k, .int v], optStr (opFmFn (d.opParams m) k v)) ∧
        AMap.lookup (asMap x) k = some v ∧ AMap.lookup (asMap x0) k ≠ some v :=
  fm_step_calls D hk hg hd hran h

/-- **C17, the fold**: every logged call is an `add`/`remove`/`update` for a key whose binding differs between the
input the operator last ran on and the current input. -/
theorem fold_step_calls {d : Defs} {fuel n g i m : Nat} {rev upd : Bool} {s s' : State} {r : Option Nat}
    (D : DInvW d.toEnv Canon (machSpec d) s (some n)) (hk : (s.nodeD n).kind = .mapWithOld g i) (hg : opBase ≤ g)
    (hd : decodeOp g = (.fold rev upd, m)) (hran : (s.nodeD n).value ≠ none)
    (h : (recomputeOne d.toEnv fuel n).run.run s = (.ok r, s')) :
    ∃ x x0 tail calls, (s.nodeD i).value = some x ∧ (s.nodeD n).oldState = x0 ∧
      s'.log = tail ++ callEvents n calls ++ s.log ∧ (∀ e, e ∈ tail → Step.Noise e) ∧
      ∀ c, c ∈ calls → ∃ k rest, c.2.1 = .int k :: rest ∧ AMap.lookup (asMap x) k ≠ AMap.lookup (asMap x0) k ∧
        (c.1 = s!"M{m}.add" ∨ c.1 = s!"M{m}.remove" ∨ c.1 = s!"M{m}.update") :=
  MapOldH.fold_step_calls D hk hg hd hran h

/-- **C17, merge**: every logged call is a `merge` call for a key whose binding differs in the left or in the right
input (`mergeIn` splits the `zip` pair). -/
theorem merge_step_calls {d : Defs} {fuel n g i m : Nat} {s s' : State} {r : Option Nat}
    (D : DInvW d.toEnv Canon (machSpec d) s (some n)) (hk : (s.nodeD n).kind = .mapWithOld g i) (hg : opBase ≤ g)
    (hd : decodeOp g = (.merge, m)) (hran : (s.nodeD n).value ≠ none)
    (h : (recomputeOne d.toEnv fuel n).run.run s = (.ok r, s')) :
    ∃ x x0 tail calls, (s.nodeD i).value = some x ∧ (s.nodeD n).oldState = x0 ∧
      s'.log = tail ++ callEvents n calls ++ s.log ∧ (∀ e, e ∈ tail → Step.Noise e) ∧
      ∀ c, c ∈ calls → ∃ k, c.1 = s!"M{m}.merge" ∧ (∃ l rr, c.2.1 = [.int k, l, rr]) ∧
        (AMap.lookup (mergeIn x).1 k ≠ AMap.lookup (mergeIn x0).1 k ∨
          AMap.lookup (mergeIn x).2 k ≠ AMap.lookup (mergeIn x0).2 k) :=
  MapOldH.merge_step_calls D hk hg hd hran h

/-- **C17, partition**: every logged call is for a binding of the current input that the input last run on did not
hold. -/
theorem partition_step_calls {d : Defs} {fuel n g i m : Nat} {s s' : State} {r : Option Nat}
    (D : DInvW d.toEnv Canon (machSpec d) s (some n)) (hk : (s.nodeD n).kind = .mapWithOld g i) (hg : opBase ≤ g)
    (hd : decodeOp g = (.part, m)) (hran : (s.nodeD n).value ≠ none)
    (h : (recomputeOne d.toEnv fuel n).run.run s = (.ok r, s')) :
    ∃ x x0 tail calls, (s.nodeD i).value = some x ∧ (s.nodeD n).oldState = x0 ∧
      s'.log = tail ++ callEvents n calls ++ s.log ∧ (∀ e, e ∈ tail → Step.Noise e) ∧
      ∀ c, c ∈ calls → ∃ k v, c.1 = s!"M{m}.fn" ∧ c.2.1 = [.int k, .int v] ∧
        AMap.lookup (asMap x) k = some v ∧ AMap.lookup (asMap x0) k ≠ some v :=
  part_step_calls D hk hg hd hran h

/-- **C17: an unchanged input costs no call**, whatever the operator. -/
theorem same_input_no_calls {d : Defs} {fuel n g i : Nat} {s s' : State} {r : Option Nat}
    (D : DInvW d.toEnv Canon (machSpec d) s (some n)) (hk : (s.nodeD n).kind = .mapWithOld g i) (hg : opBase ≤ g)
    (hran : (s.nodeD n).value ≠ none) (hsame : (s.nodeD i).value = some (s.nodeD n).oldState)
    (h : (recomputeOne d.toEnv fuel n).run.run s = (.ok r, s')) :
    ∃ tail, s'.log = tail ++ s.log ∧ ∀ e, e ∈ tail → Step.Noise e :=
  MapOldH.same_input_no_calls D hk hg hran hsame h

/-! ## non-vacuity -/

/-- `mfn M0 1 0 2 1 2` -/
def exD : Defs := { mfns := [(0, [1, 0, 2, 1, 2])] }

/-- /tmp/mapold/ex1.hist: filter-map and (reverting) fold over `v0`, both observed; input edited; the filter-map
un-observed; input edited twice; the filter-map re-observed -/
def histFm : List Action :=
  [.create (.var (.map [(1, 3), (3, 0), (5, 3)])), .create (.mapOp (.fm 0 (.outer 0))),
   .create (.mapOp (.fold 0 true false (.outer 0))),
   .observe (.outer 1), .observe (.outer 2), .stabilise,
   .set 0 (.map [(1, 3), (2, 1), (5, 3)]), .stabilise,
   .disallow 0, .stabilise,
   .set 0 (.map [(2, 1)]), .stabilise,
   .set 0 (.map [(2, 2), (4, 1)]), .stabilise,
   .observe (.outer 1), .stabilise]

/-- merge of two initially EMPTY maps (the first run reports `did_change = false`), partition of the first; edited;
the merge un-observed; both inputs edited; re-observed -/
def histMerge : List Action :=
  [.create (.var (.map [])), .create (.var (.map [])), .create (.mapOp (.merge 0 (.outer 0) (.outer 1))),
   .create (.mapOp (.part 0 (.outer 0))),
   .observe (.outer 2), .observe (.outer 3), .stabilise,
   .set 0 (.map [(1, 2), (2, 2)]), .stabilise,
   .dropObs 0, .stabilise,
   .set 1 (.map [(2, 3), (7, 1)]), .stabilise,
   .set 0 (.map [(2, 4), (3, 0)]), .stabilise,
   .observe (.outer 2), .stabilise]

def ranOk (env : Env) (acts : List Action) : Bool :=
  match runActions env acts (State.init 128 true) #[] with
  | .ok _ => true
  | .error _ => false

/-- what observer `o` reads after the history -/
def readAfter (env : Env) (acts : List Action) (o : Nat) : Option Val :=
  match runActions env acts (State.init 128 true) #[] with
  | .ok (s, _) => match s.tryGetValue env o with | .ok v => some v | .error _ => none
  | .error _ => none

theorem ranOk_iff {env : Env} {acts : List Action} (h : ranOk env acts = true) :
    ∃ s tk, runActions env acts (State.init 128 true) #[] = .ok (s, tk) := by
  unfold ranOk at h
  rcases hx : runActions env acts (State.init 128 true) #[] with e | ⟨s, tk⟩
  · rw [hx] at h; cases h
  · exact ⟨s, tk, rfl⟩

/-- both histories are histories of the fragment -/
example : histFm.all (okAction exD) = true ∧ histMerge.all (okAction exD) = true := ⟨by decide, by decide⟩

set_option maxRecDepth 100000 in
/-- both histories run, so `mapop_history_every_stabilise` applies to each of their `stabilise`s, and their final
states satisfy the invariant -/
example : (∃ s tk, runActions exD.toEnv histFm (State.init 128 true) #[] = .ok (s, tk) ∧ DInv exD s) ∧
    (∃ s tk, runActions exD.toEnv histMerge (State.init 128 true) #[] = .ok (s, tk) ∧ DInv exD s) := by
  obtain ⟨s, tk, h⟩ := ranOk_iff (env := exD.toEnv) (acts := histFm) (by decide +kernel)
  obtain ⟨s', tk', h'⟩ := ranOk_iff (env := exD.toEnv) (acts := histMerge) (by decide +kernel)
  have ok1 : ∀ a, a ∈ histFm → WAction exD.toEnv Canon (machSpec exD) a := fun a ha =>
    okAction_sound (List.all_eq_true.1 (by decide : histFm.all (okAction exD) = true) a ha)
  have ok2 : ∀ a, a ∈ histMerge → WAction exD.toEnv Canon (machSpec exD) a := fun a ha =>
    okAction_sound (List.all_eq_true.1 (by decide : histMerge.all (okAction exD) = true) a ha)
  exact ⟨⟨s, tk, h, history_inv (valOK_toEnv exD) ok1 h⟩, ⟨s', tk', h', history_inv (valOK_toEnv exD) ok2 h'⟩⟩

set_option maxRecDepth 100000 in
/-- `histFm`: the re-observed filter-map (observer 2) reads `filterMapSpec` of the final input `{2:2,4:1}` = `{2:2}`
(it was unobserved while the input went `{1:3,2:1,5:3} → {2:1} → {2:2,4:1}`); the fold (observer 1) reads
`2 + 2 + 1 = 5` -/
example : readAfter exD.toEnv histFm 2 = some (.map (filterMapSpec (opFmFn (exD.opParams 0)) [(2, 2), (4, 1)])) ∧
    readAfter exD.toEnv histFm 2 = some (.map [(2, 2)]) ∧
    readAfter exD.toEnv histFm 1 = some (.int (ufoldSpecSum (opG (exD.opParams 0)) (exD.opParams 0).c [(2, 2), (4, 1)])) ∧
    readAfter exD.toEnv histFm 1 = some (.int 5) :=
  ⟨by decide +kernel, by decide +kernel, by decide +kernel, by decide +kernel⟩

set_option maxRecDepth 100000 in
/-- `histMerge`: the re-observed merge (observer 2) reads `mergeSpec'` of the final inputs; the partition (observer 1)
reads `partitionSpec` of the final first input -/
example : readAfter exD.toEnv histMerge 2 =
      some (.map (mergeSpec' (opMergeFn (exD.opParams 0)) [(2, 4), (3, 0)] [(2, 3), (7, 1)])) ∧
    readAfter exD.toEnv histMerge 1 =
      some (.pair (.map (partitionSpec (opPartFn (exD.opParams 0)) [(2, 4), (3, 0)]).1)
        (.map (partitionSpec (opPartFn (exD.opParams 0)) [(2, 4), (3, 0)]).2)) :=
  ⟨by decide +kernel, by decide +kernel⟩

/-- the user-function calls logged along a history, oldest first, rendered as in the trace -/
def logOf (env : Env) (acts : List Action) : List String :=
  match runActions env acts (State.init 128 true) #[] with
  | .ok (s, _) => s.log.reverse.map Event.render
  | .error _ => []

set_option maxRecDepth 100000 in
/-- W3 on `histFm`: when the filter-map node `n2` is re-observed it last ran on `{1:3,2:1,5:3}`, the input then went
`{2:1}` and `{2:2,4:1}` while it was unobserved: its last step calls the user function for the bindings `2 ↦ 2` (changed
with respect to the input it LAST RAN ON) and `4 ↦ 1` (new) only — not for the removed keys 1 and 5, and the
intermediate input `{2:1}` plays no role.  (16 calls in the whole history.) -/
example : (logOf exD.toEnv histFm).length = 16 ∧
    (logOf exD.toEnv histFm).drop 14 = ["inv M0.fn@n2 (2,2)->2", "inv M0.fn@n2 (4,1)->()"] :=
  ⟨by decide +kernel, by decide +kernel⟩

end IncrVerif.Props.C15History
