import IncrVerif.Proofs.HeightH12
/-!
# C19 for whole histories of static programs — the height limit is EXACT

`Props/C19.lean` describes `set_height`, `set_max_height_allowed` and the heaps in isolation.  Here the limit is
followed through whole histories of the STATIC fragment of `Props/C01History.lean` extended by the action
`setMaxHeight`: a program whose observed nodes need height exactly `N` is accepted by an engine with limit `N`, one
that needs `N + 1` makes the `stabilise` that has to set that height panic with the height diagnostic
`Panic.site "height-limit"` — and nothing else can go wrong.

FRAGMENT (`HeightH.StaticActionH env a`): `Quiet.StaticAction env a` (create of `const`/`var`/pure `map`/`fold`/`zip`
over top-level operands; `observe`, `cloneObs`, `dropObs`, `disallow`; `set`, `modify`, `update`, `replace`,
`replaceWith`, `get`; `stabilise`, `isStable`, `stats`) or `setMaxHeight k`.  Nothing is assumed about `cfg.debug`.

DEFINITIONS (`Proofs/HeightH1.lean`: `needH`, `HEx`, `RoomH`, `Out`; `HeightH3.lean`: `TInvH`, `pendingNeed`,
`ActionOKH`; `HeightH11.lean`: `limit`, `StaticActionH`, `Refused`, `refusal`, `limitAfter`, `seenAfter`;
`HeightH12.lean`: `histNeed`).  Proof files: `HeightH2` the linking cascade, `HeightH4`/`HeightH6` what never sets a
height (unlinking cascade, drain, end of `stabilise`), `HeightH5` the two observer loops, `HeightH7` `stabilise`,
`HeightH8`–`HeightH10` create / simple actions / `setMaxHeight`, `HeightH11` actions and histories, `HeightH12`
`maxHeightSeen`.
* `needH s n` — the STATIC HEIGHT of node `n`: `1 + max` of the static heights of its children (`kids`), hence `1`
  for a leaf (`const`, `var`, a `fold` without children).  `needH_eq`, `needH_leaf`, `needH_child_lt`,
  `needH_le_index` (`≤ creation index + 1`: the old crude bound), `needH_congr_lt` (creating nodes never changes
  the static height of an existing node).  It is a function of the program only (kinds of the nodes).
* `pendingNeed s` — the greatest static height among the nodes of the observers that were created since the last
  `stabilise` and not dropped/disallowed since (`0` if none): the greatest height the next `stabilise` has to set
  (`pendingNeed_le_iff`).  By `needH_child_lt` the whole cone of such a node needs less.
* `limit s` — the configured limit: number of buckets of the heaps − 1.
* `HEx s allClosed` — every necessary node has EXACTLY `height = needH` and `needH ≤ maxHeightSeen`.
  `TInvH N s` — `HEx`, both heaps have limit exactly `N`, `0 ≤ maxHeightSeen ≤ N`, the adjust-heights heap is empty
  (+ the bookkeeping part of `Quiet.TInv`; NO bound on the number of nodes).
* `Refused s a` — `a = stabilise ∧ limit s < pendingNeed s`, or `a = setMaxHeight k ∧ k < maxHeightSeen`.
  `refusal a` — the diagnostic: `"height-limit"` resp.
  `"adjust_heights_heap:set_max_height_allowed:below-max-seen"`.
* `histNeed env acts s tk` — the maximum of `pendingNeed` over the states in which the history issues a `stabilise`.
* `Out x s Q P` — the run of `x` returns in a state satisfying `Q`, or panics WITH THE HEIGHT DIAGNOSTIC in a
  state satisfying `P` (so: no other panic, enough fuel).

PROVED (for the model).
* H1 `heights_exact`, `history_heights_exact`: in every state reached by a history of the fragment, every necessary
  node has `height = needH` exactly, whatever happened before: heights are not remembered (`becameUnnecessary` resets
  them to `-1`, see the last example) and a node that becomes necessary again gets the same height, because
  `becameNecessary` recomputes it bottom-up and `needH` is static.  The cascade: `becameNecessary_exact`.
* H2 `stabilise_exact`: from `QInv` + `TInvH N`, `stabilise` returns iff `pendingNeed s ≤ N` (then `QInv`, `TInvH N`
  hold again and `maxHeightSeen = max old pendingNeed`); otherwise it panics with `"height-limit"`,
  `maxHeightSeen = N + 1` (recorded BEFORE the panic is raised), the status stays `stabilising`: every later
  `stabilise` and `setMaxHeight` panics (`poisoned`).
  `history_never_panics_exact`: a history whose actions name existing things (`ValidHist M` for ANY `M`: `M` bounds
  only the number of nodes of the HISTORY, it is unrelated to the limit) and none of whose actions is `Refused` in the
  state in which it is issued never panics; `QInv` and `TInvH (limit s) s` hold in every reached state
  (`history_invariants`).  `history_refused`: conversely, if the history reaches a state in which the next action is
  `Refused`, that action panics with `refusal a` — for a `stabilise`: the height diagnostic, with
  `maxHeightSeen = limit + 1`, status `stabilising`.
* H3 `setMaxHeight_exact`: between actions `setMaxHeight k` is accepted iff `maxHeightSeen ≤ k`; then both heaps are
  resized (`Proofs.resized k s`), nothing else changes, `QInv` and `TInvH k` hold — so H1/H2 continue with the new
  limit; otherwise it panics with the "below-max-seen" diagnostic and changes nothing.
  `maxHeightSeen_characterised`: after a history, `maxHeightSeen = max old histNeed`; it bounds the static height of
  every node that was necessary in ANY state of the history, and it is attained by a node that was necessary after
  one of the `stabilise`s.  From `State.init`: `maxHeightSeen` = the greatest static height of a node that was EVER
  necessary (`0` if none).
* Non-vacuity: `decide +kernel` examples — a chain of three `map`s over a var (static height 4): limit 4 accepted
  and the observer reads the value; limit 3: the `stabilise` panics with `"height-limit"`, `maxHeightSeen = 4`,
  status `stabilising`; `setMaxHeight 3` refused, `setMaxHeight 10` accepted and a taller graph then accepted.

FINDING (informal statement of C19 is inaccurate; model and Rust agree, see `ex_refused_after_unobserve`):
"`set_max_height_allowed` succeeds iff … `N ≥` the greatest height IN USE" is false; the criterion is the greatest
height EVER seen (`max_height_seen` never decreases): after the only observer is disallowed and a `stabilise` made
every node unnecessary (all heights reset to `-1`), `setMaxHeight 3` is still refused because a node once had
height 4.  History: `maxheight 4; var 1; map f1 n0; map f1 n1; map f1 n2; observe n3; stabilise; disallow o0;
stabilise; setmaxheight 3` → `panic below-max-seen` (both in the model and in the Rust harness).

ASSUMED / NOT PROVED.  Everything is about the executable model.  The fragment excludes bind, map_ref,
map_with_old, expert nodes, custom cutoffs, memoised calls, subscriptions/handlers, `dropVar`, `dropHandle`,
`dropAll`, faults (`arm`): there heights change by `adjust_heights` and the static height is not a function of the
program text.  Histories with dangling indices are outside `ValidHist`.  After a refused `stabilise` nothing is
claimed except `poisoned`.
-/
namespace IncrVerif.Props.C19History
open IncrVerif.Engine IncrVerif.Driver IncrVerif.Proofs IncrVerif.Proofs.Sched IncrVerif.Proofs.Quiet
open IncrVerif.Proofs.HeightH

/-! ## the static height -/

/-- the defining equation: `1 + max` over the children (children were created before their parents) -/
theorem needH_def {env : Env} {s : State} (Q : QInv env s) (n : Nat) :
    needH s n = 1 + lmax ((kids (s.nodeD n).kind).map (needH s)) :=
  needH_eq (kidsLt_of_static Q.struct.static) n

/-- leaves need height 1 -/
theorem needH_of_leaf {s : State} {n : Nat} (h : kids (s.nodeD n).kind = []) : needH s n = 1 := needH_leaf h

/-- a child needs strictly less than its parent: the node of an observer dominates its whole cone -/
theorem needH_child {env : Env} {s : State} (Q : QInv env s) {n c : Nat} (h : c ∈ kids (s.nodeD n).kind) :
    needH s c < needH s n :=
  needH_child_lt (kidsLt_of_static Q.struct.static) h

/-- hence every node in the cone of `n` needs at most what `n` needs: `pendingNeed s ≤ N` says exactly that every
node that the next `stabilise` has to make necessary (the cones of the pending observers) needs height `≤ N` -/
theorem needH_cone {env : Env} {s : State} (Q : QInv env s) {n m : Nat} (h : Reach s n m) :
    needH s m ≤ needH s n := by
  induction h with
  | refl => exact Nat.le_refl _
  | step _ hc ih => exact Nat.le_trans (Nat.le_of_lt (needH_child Q hc)) ih

theorem pendingNeed_cone {env : Env} {s : State} (Q : QInv env s) {N : Nat} :
    pendingNeed s ≤ N ↔ ∀ o ob m, o ∈ s.newObservers → s.observers[o]? = some ob → ob.state = .created →
      Reach s ob.node m → needH s m ≤ N := by
  rw [pendingNeed_le_iff]
  constructor
  · intro h o ob m ho hob hst hr
    exact Nat.le_trans (needH_cone Q hr) (h o ob ho hob hst)
  · intro h o ob ho hob hst
    exact h o ob ob.node ho hob hst (Reach.refl _)

/-! ## H1: heights are exact -/

/-- **The linking cascade, exactly.**  See `HeightH.becameNecessary_out`. -/
theorem becameNecessary_exact {env : Env} {N fuel n : Nat} {s : State} {op : Nat → Op}
    (I : GInv env s op) (hx : HEx s op) (R : RoomH N s)
    (hop : op n = .linking 0) (hlow : ∀ m, op m ≠ .closed → n ≤ m)
    (hpar : ∀ p i, (p, i) ∈ (s.nodeD n).parents → op p ≠ .closed) (hf : 2 * n + 2 ≤ fuel) :
    Out (becameNecessary env fuel n) s
      (fun _ s' => needH s n ≤ N ∧ HEx s' (upd op n .closed) ∧
        s'.maxHeightSeen = max s.maxHeightSeen (needH s n : Int))
      (fun s' => N < needH s n ∧ s'.maxHeightSeen = (N : Int) + 1) :=
  becameNecessary_out I hx R hop hlow hpar hf

/-- under the invariant every necessary node has exactly its static height, within the limit -/
theorem heights_exact {N : Nat} {s : State} (T : TInvH N s) {n : Nat} (hn : s.isNecessary n = true) :
    (s.nodeD n).height = (needH s n : Int) ∧ (needH s n : Int) ≤ s.maxHeightSeen ∧ s.maxHeightSeen ≤ (N : Int) :=
  ⟨(T.hx n hn rfl).1, (T.hx n hn rfl).2, T.room.seen⟩

theorem init_invariants (env : Env) (N : Nat) (d : Bool) :
    QInv env (State.init N d) ∧ TInvH N (State.init N d) := ⟨qinv_init env N d, hinv_init N d⟩

/-- **H1/H2, partial form.**  Every state reached by a history of the fragment from `State.init N d` satisfies `QInv`
and the exact-height invariant for the limit the engine then has. -/
theorem history_invariants {env : Env} {N M : Nat} {d : Bool} {acts : List Action} {s : State} {tk : Array Nat}
    (ha : ∀ a, a ∈ acts → StaticActionH env a) (hv : ValidHist M 0 0 0 acts)
    (h : runActions env acts (State.init N d) #[] = .ok (s, tk)) :
    QInv env s ∧ TInvH (limit s) s := by
  obtain ⟨Q, T, -⟩ := runActions_inv (qinv_init env N d) (hinv_init N d) ha hv h
  exact ⟨Q, T⟩

/-- **H1.**  In every state reached by a history of the fragment every necessary node has EXACTLY its static
height, whatever happened before (nodes that became unnecessary and necessary again included). -/
theorem history_heights_exact {env : Env} {N M : Nat} {d : Bool} {acts : List Action} {s : State} {tk : Array Nat}
    (ha : ∀ a, a ∈ acts → StaticActionH env a) (hv : ValidHist M 0 0 0 acts)
    (h : runActions env acts (State.init N d) #[] = .ok (s, tk)) {n : Nat} (hn : s.isNecessary n = true) :
    (s.nodeD n).height = (needH s n : Int) ∧ needH s n ≤ limit s := by
  obtain ⟨-, T⟩ := history_invariants ha hv h
  obtain ⟨h1, h2, h3⟩ := heights_exact T hn
  exact ⟨h1, by omega⟩

/-! ## H2: the limit is exact -/

/-- **`stabilise`, exactly.** -/
theorem stabilise_exact {env : Env} {N fuel : Nat} {s : State} (Q : QInv env s) (T : TInvH N s)
    (hf : 3 * s.nodes.size + 4 ≤ fuel) :
    Out (stabilise env fuel) s
      (fun _ s' => pendingNeed s ≤ N ∧ TInvH N s' ∧
        s'.maxHeightSeen = max s.maxHeightSeen (pendingNeed s : Int) ∧ s'.nodes.size = s.nodes.size ∧
        (∀ m, (s'.nodeD m).kind = (s.nodeD m).kind))
      (fun s' => N < pendingNeed s ∧ s'.maxHeightSeen = (N : Int) + 1 ∧ s'.status = .stabilising) :=
  stabilise_out Q T hf

/-- a graph of height exactly `N` is accepted … -/
theorem stabilise_accepts {env : Env} {N fuel : Nat} {s : State} (Q : QInv env s) (T : TInvH N s)
    (hf : 3 * s.nodes.size + 4 ≤ fuel) (h : pendingNeed s ≤ N) :
    ∃ s', (stabilise env fuel).run.run s = (.ok (), s') ∧ QInv env s' ∧ TInvH N s' ∧
      s'.maxHeightSeen = max s.maxHeightSeen (pendingNeed s : Int) := by
  obtain ⟨_, s', hrun, -, T', hs, -⟩ := (stabilise_out (env := env) Q T hf).tot (fun t ⟨p, _⟩ => by omega)
  exact ⟨s', hrun, (stabilise_q Q hrun).inv, T', hs⟩

/-- … one of height `N + 1` (or more) panics with the height diagnostic, and with nothing else -/
theorem stabilise_rejects {env : Env} {N fuel : Nat} {s : State} (Q : QInv env s) (T : TInvH N s)
    (hf : 3 * s.nodes.size + 4 ≤ fuel) (h : N < pendingNeed s) :
    ∃ s', (stabilise env fuel).run.run s = (.error (.site "height-limit"), s') ∧
      s'.maxHeightSeen = (N : Int) + 1 ∧ s'.status = .stabilising := by
  obtain ⟨s', hrun, -, p2, p3⟩ := (stabilise_out (env := env) Q T hf).panics (fun _ t ⟨q, _⟩ => by omega)
  exact ⟨s', hrun, p2, p3⟩

/-- after a refused `stabilise` the engine is poisoned: `stabilise` and `set_max_height_allowed` panic -/
theorem poisoned {env : Env} {fuel k : Nat} {s : State} (h : s.status = .stabilising) :
    (stabilise env fuel).run.run s = (.error (.site "state:stabilise:status"), s) ∧
    (setMaxHeightAllowed k).run.run s =
      (.error (.site "state:set_max_height_allowed:during-stabilisation"), s) := by
  refine ⟨?_, smha_stabilising k s h⟩
  unfold stabilise
  rw [Step.run_bind_get]
  have : (assertM (s.status == Status.notStabilising) "state:stabilise:status").run.run s =
      (.error (.site "state:stabilise:status"), s) := by
    rw [run_assertM, h]; rfl
  exact run_bind_err this

/-- every action of the fragment, exactly (see `HeightH.step_exact`) -/
theorem action_exact {env : Env} {N : Nat} {s : State} {a : Action} {tk : Array Nat}
    (Q : QInv env s) (T : TInvH N s) (ha : StaticActionH env a) (hok : ActionOKH s a) :
    (¬ Refused s a → ∃ r s', (stepAction env a tk).run.run s = (.ok r, s') ∧ r.2 = tk ∧ QInv env s' ∧
        TInvH (limitAfter a N) s' ∧ Grown a s s' ∧ s'.maxHeightSeen = seenAfter a s ∧
        (∀ m, m < s.nodes.size → (s'.nodeD m).kind = (s.nodeD m).kind)) ∧
    (Refused s a → ∃ s', (stepAction env a tk).run.run s = (.error (refusal a), s') ∧
        (a = .stabilise → s'.maxHeightSeen = (N : Int) + 1 ∧ s'.status = .stabilising) ∧
        (∀ k, a = .setMaxHeight k → s' = s)) :=
  step_exact Q T ha hok

/-- **H2, total.**  A history of the fragment from `State.init N d` whose actions name existing things and none of
whose actions is refused in the state in which it is issued — every `stabilise` finds `pendingNeed ≤ limit`, every
`setMaxHeight k` finds `maxHeightSeen ≤ k` — never panics. -/
theorem history_never_panics_exact {env : Env} {N M : Nat} {d : Bool} {acts : List Action}
    (ha : ∀ a, a ∈ acts → StaticActionH env a) (hv : ValidHist M 0 0 0 acts)
    (hneed : ∀ as a bs s1 tk1, acts = as ++ a :: bs →
      runActions env as (State.init N d) #[] = .ok (s1, tk1) → ¬ Refused s1 a) :
    ∃ s', runActions env acts (State.init N d) #[] = .ok (s', #[]) ∧ QInv env s' ∧ TInvH (limit s') s' :=
  runActions_exact (qinv_init env N d) (hinv_init N d) ha hv hneed

/-- the same for histories of `Quiet.StaticAction`s (no `setMaxHeight`): the limit stays `N`, and the condition is
`pendingNeed ≤ N` at every `stabilise` -/
theorem static_history_never_panics {env : Env} {N M : Nat} {d : Bool} {acts : List Action}
    (ha : ∀ a, a ∈ acts → StaticAction env a) (hv : ValidHist M 0 0 0 acts)
    (hneed : ∀ as bs s1 tk1, acts = as ++ Action.stabilise :: bs →
      runActions env as (State.init N d) #[] = .ok (s1, tk1) → pendingNeed s1 ≤ N) :
    ∃ s', runActions env acts (State.init N d) #[] = .ok (s', #[]) ∧ QInv env s' ∧ TInvH N s' := by
  have ha' : ∀ a, a ∈ acts → StaticActionH env a := fun a h => Or.inl (ha a h)
  obtain ⟨s', hrun, Q', -⟩ := runActions_exact (qinv_init env N d) (hinv_init N d) ha' hv (by
    intro as a bs s1 tk1 e hrun
    have hvas : ValidHist M 0 0 0 as := validHist_prefix (bs := a :: bs) (by rw [← e]; exact hv)
    have hst : ∀ x, x ∈ as → StaticAction env x := fun x hx => ha x (by rw [e]; exact List.mem_append_left _ hx)
    have hlim : limit s1 = N :=
      (runActions_static_limit (qinv_init env N d) (hinv_init N d) hst hvas hrun).limit_eq
    have hsa := ha a (by rw [e]; exact List.mem_append_right _ (List.mem_cons_self ..))
    cases a <;> first | exact fun h => h | exact hsa.elim | skip
    show ¬ (limit s1 < pendingNeed s1)
    have := hneed as bs s1 tk1 e hrun
    omega)
  exact ⟨s', hrun, Q', runActions_static_limit (qinv_init env N d) (hinv_init N d) ha hv hrun⟩

/-- **H2, converse.**  If the history reaches a state in which the next action is refused, that action — hence the
history — panics with the corresponding diagnostic and with no other panic. -/
theorem history_refused {env : Env} {N M : Nat} {d : Bool} {as bs : List Action} {a : Action} {s1 : State}
    {tk1 : Array Nat} (ha : ∀ x, x ∈ as ++ [a] → StaticActionH env x) (hv : ValidHist M 0 0 0 (as ++ [a]))
    (h1 : runActions env as (State.init N d) #[] = .ok (s1, tk1)) (hr : Refused s1 a) :
    runActions env (as ++ a :: bs) (State.init N d) #[] = .error (refusal a) ∧
    ∃ s2, (stepAction env a tk1).run.run s1 = (.error (refusal a), s2) ∧
      (a = .stabilise → s2.maxHeightSeen = (limit s1 : Int) + 1 ∧ s2.status = .stabilising) ∧
      (∀ k, a = .setMaxHeight k → s2 = s1) :=
  runActions_refused (qinv_init env N d) (hinv_init N d) ha hv h1 hr

/-- in particular: a `stabilise` that has to make a node of static height `> limit` necessary panics with the height
diagnostic -/
theorem history_height_panic {env : Env} {N M : Nat} {d : Bool} {as bs : List Action} {s1 : State}
    {tk1 : Array Nat} (ha : ∀ x, x ∈ as → StaticActionH env x) (hv : ValidHist M 0 0 0 (as ++ [.stabilise]))
    (h1 : runActions env as (State.init N d) #[] = .ok (s1, tk1)) (hr : limit s1 < pendingNeed s1) :
    runActions env (as ++ Action.stabilise :: bs) (State.init N d) #[] = .error (.site "height-limit") :=
  (runActions_refused (a := .stabilise) (qinv_init env N d) (hinv_init N d)
    (fun x hx => by
      rcases List.mem_append.1 hx with h | h
      · exact ha x h
      · rw [List.mem_singleton.1 h]; exact Or.inl trivial) hv h1 hr).1

/-! ## H3: `set_max_height_allowed` between actions, and what `maxHeightSeen` is -/

/-- **`setMaxHeight k` between actions, exactly.** -/
theorem setMaxHeight_exact {env : Env} {N k : Nat} {s : State} {tk : Array Nat} (Q : QInv env s) (T : TInvH N s) :
    (s.maxHeightSeen ≤ (k : Int) →
      (stepAction env (.setMaxHeight k) tk).run.run s = (.ok ("ok", tk), resized k s) ∧
      QInv env (resized k s) ∧ TInvH k (resized k s)) ∧
    ((k : Int) < s.maxHeightSeen →
      (stepAction env (.setMaxHeight k) tk).run.run s =
        (.error (.site "adjust_heights_heap:set_max_height_allowed:below-max-seen"), s)) :=
  setMaxHeight_step Q T

/-- **What `maxHeightSeen` is.**  See `HeightH.seen_characterised`; from the initial state the old value is `0`. -/
theorem maxHeightSeen_characterised {env : Env} {N M : Nat} {d : Bool} {acts : List Action} {s' : State}
    {tk' : Array Nat} (ha : ∀ a, a ∈ acts → StaticActionH env a) (hv : ValidHist M 0 0 0 acts)
    (h : runActions env acts (State.init N d) #[] = .ok (s', tk')) :
    s'.maxHeightSeen = (histNeed env acts (State.init N d) #[] : Int) ∧
    (∀ as bs st tk1 n, acts = as ++ bs → runActions env as (State.init N d) #[] = .ok (st, tk1) →
      st.isNecessary n = true → needH s' n = needH st n ∧ (needH s' n : Int) ≤ s'.maxHeightSeen) ∧
    (s'.maxHeightSeen = 0 ∨
      ∃ as bs st tk1 n, acts = as ++ bs ∧ runActions env as (State.init N d) #[] = .ok (st, tk1) ∧
        st.isNecessary n = true ∧ (needH s' n : Int) = s'.maxHeightSeen) := by
  obtain ⟨h1, h2, h3⟩ := seen_characterised (qinv_init env N d) (hinv_init N d) ha hv h
  have h0 : (State.init N d).maxHeightSeen = 0 := (init_limits N d).2.2.1
  refine ⟨?_, h2, ?_⟩
  · rw [h1, h0]
    have : (0 : Int) ≤ (histNeed env acts (State.init N d) #[] : Int) := Int.natCast_nonneg _
    exact Int.max_eq_right this
  · rcases h3 with h3 | h3
    · left; rw [h3, h0]
    · right; exact h3

/-! ## non-vacuity -/

/-- a var and a chain of three `map`s over it (static height 4), an observer of the top -/
def chain : List Action :=
  [.create (.var (.int 1)), .create (.map 1 [.outer 0]), .create (.map 1 [.outer 1]),
   .create (.map 1 [.outer 2]), .observe (.outer 3)]

/-- the state after a history from `State.init N true` (`none` if it panicked) -/
def after (N : Nat) (acts : List Action) : Option State :=
  match runActions Step.exEnv acts (State.init N true) #[] with
  | .ok (s, _) => some s
  | .error _ => none

/-- the outcome of one more action: the panic (if any), what observer 0 then reads, the largest height seen, the
status -/
def next (N : Nat) (acts : List Action) (a : Action) : Option (Option Panic × Option Val × Int × Status) :=
  (after N acts).map fun s =>
    let r := (stepAction Step.exEnv a #[]).run.run s
    ((match r.1 with | .ok _ => none | .error e => some e),
     (match r.2.tryGetValue Step.exEnv 0 with | .ok v => some v | .error _ => none),
     r.2.maxHeightSeen, r.2.status)

/-- the static heights and the pending need of the chain, computed -/
example : ((after 4 chain).map fun s => ((List.range 4).map (needH s), pendingNeed s, limit s)) =
    some ([1, 2, 3, 4], 4, 4) := by decide +kernel

set_option maxRecDepth 100000 in
/-- limit 4 = the height needed: accepted, the observer reads the value -/
example : next 4 chain .stabilise = some (none, some (.int 1), 4, .notStabilising) := by decide +kernel

set_option maxRecDepth 100000 in
/-- limit 3: the `stabilise` panics with the height diagnostic; `maxHeightSeen = 4 = limit + 1`; poisoned -/
example : next 3 chain .stabilise = some (some (.site "height-limit"), none, 4, .stabilising) := by
  decide +kernel

set_option maxRecDepth 100000 in
/-- a `setMaxHeight` that is refused … -/
example : next 4 (chain ++ [.stabilise]) (.setMaxHeight 3) =
    some (some (.site "adjust_heights_heap:set_max_height_allowed:below-max-seen"), some (.int 1), 4,
      .notStabilising) := by
  decide +kernel

set_option maxRecDepth 100000 in
/-- … and one that is accepted; afterwards a taller graph (static height 5) is accepted -/
example : next 4 (chain ++ [.stabilise, .setMaxHeight 10, .create (.map 1 [.outer 3]), .observe (.outer 4)])
    .stabilise = some (none, some (.int 1), 5, .notStabilising) := by
  decide +kernel

set_option maxRecDepth 100000 in
/-- FINDING: the criterion is the greatest height EVER seen, not the greatest height in use — after the observer
is disallowed and every node has become unnecessary, `setMaxHeight 3` is still refused -/
theorem ex_refused_after_unobserve :
    next 4 (chain ++ [.stabilise, .disallow 0, .stabilise]) (.setMaxHeight 3) =
      some (some (.site "adjust_heights_heap:set_max_height_allowed:below-max-seen"), none, 4,
        .notStabilising) ∧
    ((after 4 (chain ++ [.stabilise, .disallow 0, .stabilise])).map fun s =>
      (List.range 4).map fun n => (s.isNecessary n, (s.nodeD n).height)) =
      some [(false, -1), (false, -1), (false, -1), (false, -1)] := by
  constructor <;> decide +kernel

/-- the chain is in the fragment and valid, so the theorems apply to it -/
theorem chain_static : ∀ a, a ∈ chain ++ [Action.stabilise] → StaticActionH Step.exEnv a := by
  intro a ha
  simp only [chain, List.cons_append, List.nil_append, List.mem_cons, List.mem_nil_iff, or_false] at ha
  rcases ha with rfl | rfl | rfl | rfl | rfl | rfl
  all_goals first
    | exact Or.inl trivial
    | (refine Or.inl ⟨by decide, fun _ _ => rfl, ?_⟩
       intro a ha
       simp only [List.mem_cons, List.mem_nil_iff, or_false] at ha
       rcases ha with rfl
       trivial)

theorem chain_valid : ValidHist 100 0 0 0 (chain ++ [Action.stabilise]) := by
  simp only [chain, List.cons_append, List.nil_append, ValidHist, ActionOKc, grow, fuelDefault]
  refine ⟨⟨trivial, by decide⟩, ⟨?_, by decide⟩, ⟨?_, by decide⟩, ⟨?_, by decide⟩, ⟨3, rfl, by decide⟩,
    by decide, trivial⟩
  all_goals
    intro a ha
    simp only [List.mem_cons, List.mem_nil_iff, or_false] at ha
    rcases ha with rfl
  · exact ⟨0, rfl, by decide⟩
  · exact ⟨1, rfl, by decide⟩
  · exact ⟨2, rfl, by decide⟩

set_option maxRecDepth 100000 in
/-- the converse theorem applied: with limit 3 the history panics with the height diagnostic (proved, the
hypothesis `limit < pendingNeed` is computed) -/
example : runActions Step.exEnv (chain ++ Action.stabilise :: []) (State.init 3 true) #[] =
    .error (.site "height-limit") := by
  have h : ∃ s1 tk1, runActions Step.exEnv chain (State.init 3 true) #[] = .ok (s1, tk1) ∧
      limit s1 < pendingNeed s1 := by
    have : ((after 3 chain).map fun s => decide (limit s < pendingNeed s)) = some true := by decide +kernel
    unfold after at this
    rcases hx : runActions Step.exEnv chain (State.init 3 true) #[] with e | ⟨s, tk⟩
    · rw [hx] at this; cases this
    · rw [hx] at this
      simp only [Option.map_some, Option.some.injEq, decide_eq_true_eq] at this
      exact ⟨s, tk, rfl, this⟩
  obtain ⟨s1, tk1, h1, hr⟩ := h
  exact history_height_panic (M := 100) (fun x hx => chain_static x (List.mem_append_left _ hx)) chain_valid h1 hr

end IncrVerif.Props.C19History
