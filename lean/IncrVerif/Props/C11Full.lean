import IncrVerif.Proofs.AuditF1
import IncrVerif.Proofs.AuditF2
import IncrVerif.Proofs.AuditF3
import IncrVerif.Proofs.AuditF4
import IncrVerif.Proofs.AuditF7
/-!
# C11 for the COMBINED fragment: the engine's dependency bookkeeping is self-consistent at every quiescent point

Property C11: *whenever control is outside `stabilise`, an audit of the engine finds: every dependency edge of a needed node is recorded symmetrically on both ends
with matching indices, every needed node is strictly higher than its inputs and than the bind that created it and within the height limit, unneeded nodes have no
dependants and are not scheduled, the pending-work queue holds exactly the needed-and-stale nodes once each, and after `stabilise` it is empty and every needed valid
node has a value.  The public counters agree with it: `stats().necessary` equals the number of needed nodes and per-node handler counts equal the handlers actually
registered.  — for all programs and histories, audited after every single API action (not only after `stabilise`).*

Earlier files: `C11Heap` (the recompute heap's `HeapWF` through every function, all programs), `C05` (necessity), `C01History` (the audit invariant for STATIC
histories).  This file proves the audit for the COMBINED fragment of `C01Full`/`C04Full`, on the ACTUAL engine state.

## THE FRAGMENT (that of `Props/C01Full.lean`: `FullH.HistFull env sp 0 acts`, `FullH.EnvS env sp`, `FullH.FirstFn env`)

`const`, `var`, pure `map` 1…6 / `zip`, `fold`, `depend_on`, `map_ref` (chains), `map_with_old` (machines satisfying the contract `FullH.Good`), `bind` with closures building
such nodes and NESTED binds over older top-level handles and own locals; `observe`/`cloneObs`/`dropObs`/`disallow`; the five variable writes and `get`; `stabilise`,
`isStable`, `stats`; the `cutoff n c` action with `c ∈ {never, eq}`.  See the header of `Props/C01Full.lean` for the exact conditions and for what is outside.

## THE PREDICATE `AuditF.Audit s` (`Proofs/AuditF1.lean`; spelled out by `audit_clauses` below)

A structure over the model state `s` ALONE — the engine's own readers `State.isNecessary`, `State.children` (= `try_fold_children`), `State.isStale`, `Node.inRch`, the fields of
`State`/`Node`/`Heap`; no ghost values, no virtual state, no environment:
* control is outside `stabilise`: `status = notStabilising`, `currentScope = top`, the stacks `handleAfterStab`, `propagateInvalidity`, `setDuringStab`, `deadVars` are empty;
* `nec`: a needed node exists, is VALID, height `≥ 0`;
* `childRec` / `parentRec` / `parentsNodup` — EDGE SYMMETRY WITH INDICES: the `i`-th input `c` of a needed node `n` is a node, is needed, has the entry `(n, i)` in its parent list
  and `height c < height n`; conversely every recorded entry `(p, i)` of `c` is the `i`-th input edge of a NEEDED `p` (so unneeded nodes hold no entry anywhere); no entry twice
  (the model's parent list stores `(parent, child index)` pairs: the Rust `parent_child_indices` arrays are that pairing);
* `scopeHeight`: a needed node created by the closure of bind `b` is strictly higher than `b`'s change detector (`bind_lhs_change`), which exists, is valid and needed;
* `unnec` / `invalid` / `noForce`: an unneeded node has no parent entries, no observers, is not in the recompute heap; an invalid node is isolated, unscheduled, unneeded;
* `heapWF` (bucket `h` = the nodes whose marker `heightInRch` is `h`; no duplicates; `length` = number of entries; markers `-1` or a bucket index), `queued` (IN THE HEAP ⇔ NEEDED ∧ STALE),
  `queuedAt` (marker = `height`), `lowerBound` (`0 ≤ lowerBound ≤` every queued height);
* the adjust-heights heap: `length = 0`, every bucket empty, every marker `heightInAhh = -1`;
* `obs` (`Quiet.ObsInv`): observers watch existing nodes; the observer list of a node = the in-use/disallowed observers on it; created observers wait in `newObservers`, disallowed ones
  in `disallowedObservers` (no duplicates); observers carry no handlers, `noHandlers`: every `numOnUpdateHandlers = 0` (the fragment has no subscriptions: counts = registered = 0);
* `vars` (`Quiet.VarsOK`): variable cells and `var` nodes name each other.
The HEIGHT-LIMIT clause is not a field of `Audit`; it is stated next to it (`history_audit_limit`), because it is proved by a different route (see below).

## PROVED HERE (for the model, both `cfg.debug` settings, any height limit `N`; partial correctness: the history is assumed to return `.ok`)

* `history_audit`: EVERY STATE REACHED from `State.init N d` by a history of the fragment satisfies `Audit`.
* `history_audit_every`: … so does every INTERMEDIATE state (C11's "audited after every single API action").
* `history_stabilise_audit`: at every `stabilise` of a history: `Audit` before and after; after it THE RECOMPUTE HEAP IS EMPTY (`length = 0`, every bucket `[]`, no marker set),
  the observer work lists are empty, every needed node is valid, NOT STALE and HAS A VALUE unless it is a `map_ref` node (these store nothing: the recompute step of a `map_ref` node sets its
  `Node.value` to `none`, readers project the input's value on the fly).
* `audit_bucket`: from `Audit`, bucket by bucket: `queues[h]` has no duplicates and `n ∈ queues[h] ⇔ needed n ∧ stale n ∧ valid n ∧ height n = h` — "the pending-work queue holds
  exactly the needed-and-stale nodes, once each, at their height".
* `audit_stale_height_le`: a needed stale node has `height ≤ rch.maxAllowed` (it sits in a bucket).
* `audit_clauses`: `Audit` spelled out as one conjunction.
* Corollaries for smaller fragments by the same route: `history_audit_F2` (`C03Nested`'s fragment F2: static core + nested binds, `NestH.HistF2`), `history_audit_static` (the static
  histories of `C01History`: `∀ a ∈ acts, Quiet.StaticAction env a`).
* `history_audit_limit`, `history_height_limit`: THE HEIGHT-LIMIT CLAUSE for the combined fragment — in every state reached by a history (that returns) EVERY node, needed or not, has
  `height ≤ maxHeightSeen ≤ maxAllowed` of both heaps, and both heaps have the same limit; `0 ≤ height` for needed nodes.  Method (`Proofs/AuditF5…7`): the invariant `HLim.HL` is kept by every
  engine function THAT RETURNS (`HLim.POk`, an ok-only variant of the syntactic `Step.Pres` ladder, ported mechanically from `NestH122`): the only writer of `height`/`maxHeightSeen` is
  `setHeight`, which panics with `height-limit` before storing a height beyond the limit (the panicking run does leave `maxHeightSeen` beyond the limit — that is why the ladder is ok-only).
  This part uses NO hypothesis on the program except the list of action kinds (`HLim.PlainAction`: no `setMaxHeight`).
* `history_audit_static_limit`: for the static core THE HEIGHT-LIMIT CLAUSE also follows (from the exact-height invariant `HeightH.TInvH` of `C19History`): every needed node has
  `height ≤ maxHeightSeen ≤ maxAllowed` of both heaps.
* NON-VACUITY (kernel-checked): `exHistF` / `exHistG` of `C01Full` satisfy the hypotheses, so EVERY PREFIX of them ends in a state passing the audit (`exHistF_audit_every`,
  `exHistG_audit_every`); the audited states are not trivial (`exHistF_final_facts`: 25 nodes, bind main node 4 needed at height 8 over inputs `[3, 21]`, `(4, 1)` recorded in node 21
  at height 7, dead generation invalid and unneeded; `exHistF_pending_facts`: before the last `stabilise` the heap holds exactly the written variable's node, needed and stale, in bucket 1).

## METHOD

`C01Full.history_inv` gives `FullH.QInvFE env sp s = ∃ g, QInvF env sp s g`, whose component `q : NestH.QG2 (VE env sp) (virt g s)` is the invariant between API actions of fragment F2
about the VIRTUAL state.  `audit_of_qinv2` (`AuditF1`): `NestH.QInv2 env rk t → Audit t` for any state `t` (from `BindH.BGraph` via `QInv2.bgraph`, `NestH.GInv2` at rest, `NestH.F2Inv`,
`ObsOK`, `VarsOK`).  `Audit.of_virt`: `Audit (virt g s) → Audit s`, clause by clause — `virt` keeps `parents`, `observers`, `forceNecessary`, `height`, both heap markers, `valid`,
`createdIn`, handler counts, all `State` fields other than `nodes`, and `State.children` / `State.isStale` / `State.isNecessary` (`virt_children`, `virt_isStale`, `virt_isNecessary`); it
changes kinds (`mapRef`/`mapWithOld` ↦ `map`), stored values, cutoffs, `didChange` — none of which `Audit` reads (`VarsOK` reads `kind = var c`, which `virtKind` preserves both ways).

## CLAUSES OF C11 COVERED / NOT COVERED

Covered: edge symmetry with indices (both directions, no duplicates); needed node strictly above its inputs and above the change detector of the bind that created it, and WITHIN THE HEIGHT LIMIT
(`history_audit_limit`); unneeded nodes: no
dependants, not scheduled, referenced by no parent entry; the queue = exactly the needed stale nodes once each at their height, markers agree with contents (both heaps), adjust-heights heap
empty; empty queue after `stabilise`, needed nodes valid / not stale / with a value (map_ref excepted, see above); handler counts (trivially, no subscriptions in the fragment); observer lists.
NOT covered:
* `stats().necessary = number of needed nodes` (the counters `becameNecessary`/`becameUnnecessary` are not tracked by `QInvFE`).
* Total correctness (no panic / fuel) — `C04Full` treats panics of the combined fragment; here every statement assumes `.ok`.
* Everything outside the fragment (user cutoffs, expert nodes, subscriptions — for which handler counts would be non-trivial —, `setMaxHeight`, `dropVar`, …).
-/
namespace IncrVerif.Props.C11Full
open IncrVerif.Engine IncrVerif.Driver IncrVerif.Proofs IncrVerif.Proofs.FullH IncrVerif.Proofs.AuditF

/-- **C11 for the combined fragment.** Every state reached from the initial state by a history of the full fragment passes the audit. -/
theorem history_audit {env : Env} {sp : Nat → Val → Val} (E : EnvS env sp) (hF : FirstFn env) {N : Nat} {d : Bool} {acts : List Action} {s : State} {tk : Array Nat}
    (hH : HistFull env sp 0 acts) (h : Quiet.runActions env acts (State.init N d) #[] = .ok (s, tk)) : Audit s :=
  AuditF.history_audit E hF hH h

/-- **Audited after every single API action.** Every intermediate state of a history of the full fragment passes the audit. -/
theorem history_audit_every {env : Env} {sp : Nat → Val → Val} (E : EnvS env sp) (hF : FirstFn env) {N : Nat} {d : Bool} {as bs : List Action} {s : State} {tk : Array Nat}
    (hH : HistFull env sp 0 (as ++ bs)) (h : Quiet.runActions env (as ++ bs) (State.init N d) #[] = .ok (s, tk)) :
    ∃ s1 tk1, Quiet.runActions env as (State.init N d) #[] = .ok (s1, tk1) ∧ Audit s1 ∧ Quiet.runActions env bs s1 tk1 = .ok (s, tk) :=
  AuditF.history_audit_every E hF hH h

/-- **After every `stabilise`**: the audit, an EMPTY recompute heap, empty observer work lists, every needed node valid, not stale, with a value (map_ref nodes store none). -/
theorem history_stabilise_audit {env : Env} {sp : Nat → Val → Val} (E : EnvS env sp) (hF : FirstFn env) {N : Nat} {d : Bool} {as bs : List Action} {s : State} {tk : Array Nat}
    (hH : HistFull env sp 0 (as ++ Action.stabilise :: bs))
    (h : Quiet.runActions env (as ++ Action.stabilise :: bs) (State.init N d) #[] = .ok (s, tk)) :
    ∃ s1 tk1 s2, Quiet.runActions env as (State.init N d) #[] = .ok (s1, tk1) ∧ Audit s1 ∧
      (stabilise env fuelDefault).run.run s1 = (.ok (), s2) ∧ Audit s2 ∧
      s2.rch.length = 0 ∧ (∀ (k : Nat) (hk : k < s2.rch.queues.size), s2.rch.queues[k] = []) ∧ (∀ m, (s2.nodeD m).inRch = false) ∧
      s2.newObservers = [] ∧ s2.disallowedObservers = [] ∧
      (∀ n, s2.isNecessary n = true → (s2.nodeD n).valid = true ∧ s2.isStale n = false ∧
        ((∃ v, (s2.nodeD n).value = some v) ∨ ∃ p i, (s2.nodeD n).kind = .mapRef p i)) ∧
      Quiet.runActions env bs s2 tk1 = .ok (s, tk) :=
  AuditF.history_stabilise_audit E hF hH h

/-- **The pending-work queue holds exactly the needed stale nodes, once each, in the bucket of their height.** -/
theorem audit_bucket {s : State} (A : Audit s) (h : Nat) (hh : h < s.rch.queues.size) :
    (s.rch.queues[h]).Nodup ∧ ∀ n, n ∈ s.rch.queues[h] ↔
      (s.isNecessary n = true ∧ s.isStale n = true ∧ (s.nodeD n).valid = true ∧ (s.nodeD n).height = (h : Int)) :=
  A.bucket h hh

/-- a needed stale node is within the height limit -/
theorem audit_stale_height_le {s : State} (A : Audit s) {n : Nat} (h1 : s.isNecessary n = true) (h2 : s.isStale n = true) :
    (s.nodeD n).height ≤ s.rch.maxAllowed :=
  A.stale_height_le h1 h2

/-- **`Audit` spelled out** (the graph and heap clauses; `A.obs`, `A.vars`, `A.heapWF` are the structures `Quiet.ObsInv`, `Quiet.VarsOK`, `HeapWF`). -/
theorem audit_clauses {s : State} (A : Audit s) :
    (s.status = .notStabilising ∧ s.currentScope = .top ∧ s.handleAfterStab = [] ∧ s.propagateInvalidity = [] ∧ s.setDuringStab = [] ∧ s.deadVars = []) ∧
    (∀ n, s.isNecessary n = true → n < s.nodes.size ∧ (s.nodeD n).valid = true ∧ 0 ≤ (s.nodeD n).height) ∧
    (∀ n, s.isNecessary n = true → ∀ i c, (s.children n)[i]? = some c →
      c < s.nodes.size ∧ s.isNecessary c = true ∧ (n, i) ∈ (s.nodeD c).parents ∧ (s.nodeD c).height < (s.nodeD n).height) ∧
    (∀ c p i, (p, i) ∈ (s.nodeD c).parents → s.isNecessary p = true ∧ (s.children p)[i]? = some c) ∧
    (∀ c, (s.nodeD c).parents.Nodup) ∧
    (∀ n b, s.isNecessary n = true → (s.nodeD n).createdIn = .bind b →
      ∃ br, s.binds[b]? = some br ∧ br.lhsChange < s.nodes.size ∧ (s.nodeD br.lhsChange).valid = true ∧
        s.isNecessary br.lhsChange = true ∧ (s.nodeD br.lhsChange).height < (s.nodeD n).height) ∧
    (∀ n, s.isNecessary n = false → (s.nodeD n).parents = [] ∧ (s.nodeD n).observers = [] ∧ (s.nodeD n).inRch = false) ∧
    (∀ n, (s.nodeD n).valid = false →
      (s.nodeD n).parents = [] ∧ (s.nodeD n).observers = [] ∧ (s.nodeD n).inRch = false ∧ s.isNecessary n = false) ∧
    HeapWF s ∧
    (∀ m, (s.nodeD m).inRch = true ↔ (s.isNecessary m = true ∧ s.isStale m = true)) ∧
    (∀ m, (s.nodeD m).inRch = true → (s.nodeD m).heightInRch = (s.nodeD m).height) ∧
    (0 ≤ s.rch.lowerBound ∧ ∀ m, (s.nodeD m).inRch = true → s.rch.lowerBound ≤ (s.nodeD m).height) ∧
    (s.ahh.length = 0 ∧ (∀ i (hi : i < s.ahh.queues.size), s.ahh.queues[i] = []) ∧ ∀ m, (s.nodeD m).heightInAhh = -1) ∧
    (∀ n, (s.nodeD n).forceNecessary = false ∧ (s.nodeD n).numOnUpdateHandlers = 0) :=
  ⟨⟨A.status, A.currentScope, A.handleAfterStab, A.propagateInvalidity, A.setDuringStab, A.deadVars⟩, A.nec, A.childRec, A.parentRec, A.parentsNodup,
    A.scopeHeight, A.unnec, A.invalid, A.heapWF, A.queued, A.queuedAt, A.lowerBound, ⟨A.ahhLength, A.ahhBuckets, A.ahhMarks⟩,
    fun n => ⟨A.noForce n, A.noHandlers n⟩⟩

/-- **C11 for fragment F2** (`C03Nested`: static core + binds + nested binds). -/
theorem history_audit_F2 {env : Env} {N : Nat} {d : Bool} {acts : List Action} {s : State} {tk : Array Nat}
    (hH : NestH.HistF2 env 0 acts) (h : Quiet.runActions env acts (State.init N d) #[] = .ok (s, tk)) : Audit s :=
  AuditF.history_audit_F2 hH h

/-- **C11 for the static core** (the histories of `C01History`). -/
theorem history_audit_static {env : Env} {N : Nat} {d : Bool} {acts : List Action} {s : State} {tk : Array Nat}
    (hH : ∀ a, a ∈ acts → Quiet.StaticAction env a) (h : Quiet.runActions env acts (State.init N d) #[] = .ok (s, tk)) : Audit s :=
  AuditF.history_audit_static hH h

/-- **C11 for the combined fragment WITH THE HEIGHT-LIMIT CLAUSE**: the audit, and every needed node's height lies between `0` and the limit of both heaps. -/
theorem history_audit_limit {env : Env} {sp : Nat → Val → Val} (E : EnvS env sp) (hF : FirstFn env) {N : Nat} {d : Bool} {acts : List Action} {s : State} {tk : Array Nat}
    (hH : HistFull env sp 0 acts) (h : Quiet.runActions env acts (State.init N d) #[] = .ok (s, tk)) :
    Audit s ∧ ∀ n, s.isNecessary n = true →
      0 ≤ (s.nodeD n).height ∧ (s.nodeD n).height ≤ s.rch.maxAllowed ∧ (s.nodeD n).height ≤ s.ahh.maxAllowed :=
  HLim.history_audit_limit E hF hH h

/-- **The height limit, for any program**: along a history of the listed action kinds (any operands, any closures) that returns, every node's height is at most the largest height seen,
which is within the common limit of both heaps. -/
theorem history_height_limit {env : Env} {N : Nat} {d : Bool} {acts : List Action} {s : State} {tk : Array Nat}
    (ha : ∀ a, a ∈ acts → HLim.PlainAction a) (h : Quiet.runActions env acts (State.init N d) #[] = .ok (s, tk)) :
    0 ≤ s.maxHeightSeen ∧ s.maxHeightSeen ≤ s.ahh.maxAllowed ∧ s.rch.maxAllowed = s.ahh.maxAllowed ∧
      ∀ n, (s.nodeD n).height ≤ s.maxHeightSeen ∧ (s.nodeD n).height ≤ s.rch.maxAllowed ∧ (s.nodeD n).height ≤ s.ahh.maxAllowed :=
  HLim.history_height_limit ha h

/-- **C11 incl. the height limit, static core** (`ValidHist M`: the indices the actions use exist; `M` arbitrary): the audit, and every needed node is within the height limit
of both heaps. -/
theorem history_audit_static_limit {env : Env} {N M : Nat} {d : Bool} {acts : List Action} {s : State} {tk : Array Nat}
    (ha : ∀ a, a ∈ acts → Quiet.StaticAction env a) (hv : Quiet.ValidHist M 0 0 0 acts)
    (h : Quiet.runActions env acts (State.init N d) #[] = .ok (s, tk)) :
    Audit s ∧ ∀ n, s.isNecessary n = true →
      (s.nodeD n).height ≤ s.maxHeightSeen ∧ s.maxHeightSeen ≤ s.rch.maxAllowed ∧ s.maxHeightSeen ≤ s.ahh.maxAllowed :=
  AuditF.history_audit_static_limit ha hv h

/-! ## non-vacuity -/

/-- the example history `exHistF` of `C01Full` (map_ref chain, map_with_old, nested bind inside a bind's closure; writes, lhs changes, disallow, re-observation) satisfies the hypotheses,
runs, and its final state passes the audit -/
example : EnvS fEnv fSp ∧ FirstFn fEnv ∧ HistFull fEnv fSp 0 exHistF ∧
    ∃ s tk, Quiet.runActions fEnv exHistF (State.init 128 true) #[] = .ok (s, tk) ∧ Audit s := by
  obtain ⟨s, tk, h⟩ := exHistF_runs
  exact ⟨fEnv_envS, fEnv_first, exHistF_frag, s, tk, h, history_audit fEnv_envS fEnv_first exHistF_frag h⟩

/-- … and the height-limit clause: in the final state of `exHistF` every needed node's height lies between `0` and the limit `128` of both heaps (the bind's main node 4 is at height 8) -/
example : ∃ s tk, Quiet.runActions fEnv exHistF (State.init 128 true) #[] = .ok (s, tk) ∧ Audit s ∧
    ∀ n, s.isNecessary n = true → 0 ≤ (s.nodeD n).height ∧ (s.nodeD n).height ≤ s.rch.maxAllowed ∧ (s.nodeD n).height ≤ s.ahh.maxAllowed := by
  obtain ⟨s, tk, h⟩ := exHistF_runs
  exact ⟨s, tk, h, history_audit_limit fEnv_envS fEnv_first exHistF_frag h⟩

/-- every prefix of `exHistF` and of `exHistG` (`depend_on`, the `cutoff` action) ends in a state that passes the audit -/
example (k : Nat) :
    (∃ s tk, Quiet.runActions fEnv (exHistF.take k) (State.init 128 true) #[] = .ok (s, tk) ∧ Audit s) ∧
    (∃ s tk, Quiet.runActions fEnv (exHistG.take k) (State.init 128 true) #[] = .ok (s, tk) ∧ Audit s) :=
  ⟨exHistF_audit_every k, exHistG_audit_every k⟩

/-- the audited states are not trivial (kernel-checked): the final state of `exHistF` has 25 nodes; the bind's main node 4 is needed, at height 8, over the inputs `[3, 21]`; node 21 records
`(4, 1)` at height 7, the change detector 3 sits at height 2; the closure-built `map` 18 has the inputs `[17, 2]` and the outer variable 2 records `(18, 1)`; node 22 (dead generation) is
invalid and unneeded; the heap is empty.  Before the last `stabilise` the heap holds exactly node 2 (the written variable: needed, stale, height 1, marker 1) in bucket 1; after the second
`observe` the new observer waits in `newObservers`. -/
example :
    (∃ s, BindH.C2h.stateB fEnv (exHistF.take 20) = some s ∧ Audit s) ∧
    EX.factF exHistF (fun s => (s.nodes.size, s.isNecessary 4, s.children 4, (s.nodeD 21).parents)) = some (25, true, [3, 21], [(4, 1)]) ∧
    EX.factF exHistF (fun s => ((s.nodeD 4).height, (s.nodeD 21).height, (s.nodeD 3).height)) = some (8, 7, 2) ∧
    EX.factF exHistF (fun s => (s.children 18, (s.nodeD 2).parents, (s.nodeD 22).valid, s.isNecessary 22, s.rch.length)) =
      some ([17, 2], [(18, 1), (19, 0)], false, false, 0) ∧
    EX.factF (exHistF.take 20) (fun s => (s.rch.length, s.rch.queues[1]?, s.isNecessary 2, s.isStale 2, (s.nodeD 2).height, (s.nodeD 2).heightInRch)) =
      some (1, some [2], true, true, 1, 1) ∧
    EX.factF (exHistF.take 18) (fun s => (s.newObservers, s.disallowedObservers)) = some ([1], []) :=
  ⟨exHistF_audit_state 20, exHistF_final_facts.1, exHistF_final_facts.2.1, exHistF_final_facts.2.2, exHistF_pending_facts.1, exHistF_pending_facts.2⟩

end IncrVerif.Props.C11Full
