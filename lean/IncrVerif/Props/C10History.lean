import IncrVerif.Proofs.Life10
import IncrVerif.Props.C10
/-!
# C10 / C07 / C09 over whole histories — the observer lifecycle for ALL programs

Every theorem is about the executable model (`stepAction`, `stabilise`, `runAll`, … of
`Engine/*.lean`), for EVERY `Env` (user functions, effects, handlers, bind bodies), every node kind and
every state unless a hypothesis says otherwise.  A run is `(m).run.run s : Except Panic α × State`;
`.ok` is a normal return, `.error` a panic (the state is the state at the panic point).

## PROVED

* **O1 lifecycle monotonicity.**  `Life s s'` (`Proofs/Life1.lean`): no observer record is removed,
  every record keeps its `node`, its state only moves forward in `created < inUse < disallowed <
  unlinked` (`lifeLe`; `lifeLe_iff_path`: this order is the reflexive-transitive closure of the four
  edges created→inUse, inUse→disallowed, disallowed→unlinked, created→unlinked).
  `step_life`: every API action, every outcome.  `history_life`: every history (`Run`: any list of
  actions, any outcomes, any token tables, the harness's log reset; `harness_history`: what
  `traceAction`/`runHistory` run is such a history).  Consequences with the read table of `Props/C10`:
  `dead_never_reads_again`, `dead_reads_disallowed`, `started_never_unstarted`.
  Behind it: `Pres Life m` / `Pres Dis m` for every function of the model reachable from `stepAction`
  (`Proofs/Life1.lean`, `Life2.lean`; the calculus of `Proofs/Observers.lean`).
* **O2 exactness outside `stabilise`.**  `step_table`: for every action other than `stabilise`, every
  outcome, the observer table `(node, state, clones)` afterwards is the explicit function `stepTable`
  of the table before (`observe` pushes `(n, created, 1)`, `cloneObs` increments `clones`, `disallow`
  applies `afterDisallow`, `dropObs` decrements `clones` and applies `afterDisallow` on the last
  handle, everything else — node construction, var writes, (un)subscribe, `add_dependency`,
  `set_max_height_allowed`, `drop_all`, … — is the identity).  `other_actions_same` also keeps the
  two observer queues; closed forms of the four observer actions: `observe_run`, `cloneObs_run`,
  `disallow_run`, `dropObs_run`.  No top-level action other than `stabilise` runs user effects.
* **O3 `stabilise`.**  `stabilise_spec` (no hypothesis on the state): for a `stabilise` that returns,
  the state of every observer is `phase2` of its old state (queued in `newObservers` and created ↦ in
  use; queued in `disallowedObservers` ↦ unlinked) or `afterDisallow` of that (an effect disallowed it
  during this stabilisation); `newObservers = []`; `disallowedObservers` lists once each exactly the
  observers that went in use ↦ disallowed during it; status `notStabilising` before and after.
  `stabilise_lifecycle`: under the queue invariants `ObsWF` (true initially, kept by every action that
  is not a PANICKING `stabilise`: `obsWF_step`, `obsWF_history`) this is the informal statement:
  created ↦ in use (or disallowed), in use ↦ in use (or disallowed), disallowed ↦ unlinked,
  unlinked ↦ unlinked; `disallowedObservers` = the disallowed observers.
  Per phase, every outcome: `addNewObservers_spec`, `unlinkDisallowedObservers_spec`.

* **O4 handlers.**  `handlers_only_when_in_use`: `run_all` (the only place of the model that logs
  `Event.notif` and runs `env.handler`) EQUALS `runAllChecked`, the same loop with the ghost assertion
  "observer `o` is in use and the handler's token is still registered on `o`" directly in front of
  `logEv (.notif …)`: the assertion can never fire, for no state, environment or effect.  With O1: once
  an observer is disallowed or its last handle dropped, it is never in use again, so no handler of it
  ever runs again; with `Props.C10.unsubscribe_ok` (the handler is removed from the list): an
  unsubscribed handler is not run.  `registrations_stable`: nothing that runs inside a stabilisation
  after the observer phases changes the registrations of an observer that is still in use.
* **O5 C07 for whole histories.**  `reads_between_stabilisations`: along any list of API actions other
  than `stabilise`, `drop_all`, `add_dependency`, whatever their outcomes, an observer whose lifecycle
  state is the same at the end as at the start reads the same result; `MapRefsBackward` and
  `ObsNodesInRange` are needed of the initial state only.

* **C09, observer side, for whole histories.**  `Dead s tok`: token `tok` has been issued and is not
  registered on any observer that is created or in use.  `dead_stays_dead_and_silent`: along every
  history from a state where `tok` is dead, `tok` stays dead and NO `Event.notif tok _` is ever logged
  again (`step_logs_no_dead_notification`: per action, in the harness's form).  What makes a token
  dead: `disallow_kills`, `last_drop_kills`, `unsubscribe_kills` (under `TokWF`: registered tokens are
  `< nextToken` and registered on one observer only — true initially and kept by every action, every
  outcome: `tokWF_init`, `tokWF_history`).  Combined: `no_callback_after_disallow`,
  `no_callback_after_unsubscribe`.  Tokens are fresh: `subscribe` issues `nextToken` (part of `TokWF`).

## NOT PROVED
* O5 excludes `add_dependency` at top level (it runs the necessity/invalidation cascades outside a
  stabilisation; proving that these cannot reach an in-use observer's node needs the graph invariants).

## ASSUMED
Nothing beyond the stated hypotheses.  `ObsWF s` in `stabilise_lifecycle` is an invariant of histories
from `State.init` in which no `stabilise` panics.

## FOUND (true of the model, differs from the informal statement)
* After a `stabilise` that PANICS inside `add_new_observers` (e.g. height limit, bind not necessary)
  the observers still queued stay `created` for ever: `newObservers` was already cleared.  Likewise a
  panic inside `unlink_disallowed_observers` leaves the rest `disallowed` and never unlinked.  Hence
  "created → in use at the first stabilise" needs `ObsWF`, which a panicking `stabilise` may break
  (`Life` still holds).
* In release mode (`cfg.debug = false`) `unlink_disallowed_observers` unlinks whatever is queued, also
  an observer that is not disallowed (the check is a `debug_assert`); `phase2` describes that.
* The effects `subscribe` / `unsubscribe` of `Effect` are no-ops in the model (`runEffectBasic` falls
  through to `pure ()`): user code running during a stabilisation cannot (un)subscribe; it can
  `disallow`.  There is no `observe` effect.
-/
namespace IncrVerif.Props.C10History
open IncrVerif.Engine IncrVerif.Proofs.Obs IncrVerif.Proofs.Life

/-! ## O1: the lifecycle only moves forward, along every history -/

/-- the lifecycle order is exactly "reachable by the four lifecycle transitions" -/
theorem lifeLe_iff_path (a b : ObsState) : lifeLe a b ↔ LifePath a b :=
  Proofs.Life.lifeLe_iff_path a b

example : lifeLe .created .unlinked ∧ ¬ lifeLe .disallowed .inUse := by decide

/-- Every API action (`stabilise` with all its recomputation, user effects and handlers included),
with any token table, from any state, whether it returns or panics: no observer is removed, each keeps
its node, and each lifecycle state stays or moves forward. -/
theorem step_life (env : Env) (a : Action) (tokens : Array Nat) (s s' : State)
    (r : Except Panic (String × Array Nat))
    (hrun : (stepAction env a tokens).run.run s = (r, s')) :
    s.observers.size ≤ s'.observers.size ∧
    ∀ (o : Nat) (ob : ObsRec), s.observers[o]? = some ob →
      ∃ ob' : ObsRec, s'.observers[o]? = some ob' ∧ ob'.node = ob.node ∧ lifeLe ob.state ob'.state :=
  let h := (PresL.stepAction env a tokens).h s r s' hrun
  ⟨h.size, h.obs⟩

example : lifeLe .inUse
    (((stepAction exEnv (.disallow 0) #[]).run.run exState).2.observers[0]?.map (·.state)).get! := by
  decide +kernel

/-- the same for `stabilise` itself (any fuel) -/
theorem stabilise_life (env : Env) (fuel : Nat) (s s' : State) (r : Except Panic Unit)
    (hrun : (stabilise env fuel).run.run s = (r, s')) : Life s s' :=
  (PresL.stabilise env fuel).h s r s' hrun

/-- … and along every history: any list of actions, any outcomes -/
theorem history_life (env : Env) (P : Action → Except Panic (String × Array Nat) → Prop)
    (s s' : State) (h : Run env P s s') :
    s.observers.size ≤ s'.observers.size ∧
    ∀ (o : Nat) (ob : ObsRec), s.observers[o]? = some ob →
      ∃ ob' : ObsRec, s'.observers[o]? = some ob' ∧ ob'.node = ob.node ∧ lifeLe ob.state ob'.state :=
  ⟨h.life.size, h.life.obs⟩

/-- what the harness runs (`traceAction` action by action, as `runHistory` does) is a history -/
theorem harness_history (env : Env) (as : List Action) (idx : Nat) (rs : RunState) :
    Run env (fun _ _ => True) rs.s (runStates env as idx rs).s :=
  run_runStates env _ as (fun _ _ _ => trivial) idx rs

/-- a concrete history from `exState`: disallow observer 0, observe node 0, stabilise, write the var,
drop the only handle of observer 4, stabilise -/
def exHist : List Action :=
  [.disallow 0, .observe (.abs 0), .stabilise, .set 0 (.int 7), .dropObs 4, .stabilise]

example : (runStates exEnv exHist 0 { s := exState }).s.observers.toList.map (·.state)
    = [.unlinked, .inUse, .unlinked, .unlinked, .unlinked, .inUse] := by decide +kernel

/-- An observer that is disallowed or unlinked at some point of a history never reads a value again:
at every later point its read is an error. -/
theorem dead_never_reads_again (env : Env) (P : Action → Except Panic (String × Array Nat) → Prop)
    (s s' : State) (h : Run env P s s') (o : Nat) (ob : ObsRec) (ho : s.observers[o]? = some ob)
    (hst : ob.state = .disallowed ∨ ob.state = .unlinked) (v : Val) :
    s'.tryGetValue env o ≠ .ok v := by
  obtain ⟨ob', e', _, hle⟩ := h.life.obs o ob ho
  rw [Props.C10.read_table env s' o ob' e']
  have : ob'.state = .disallowed ∨ ob'.state = .unlinked := by
    rcases hst with hst | hst <;> rw [hst] at hle <;> revert hle <;> cases ob'.state <;> decide
  split
  · simp
  split
  · simp
  rcases this with h | h <;> simp [h]

/-- … precisely: whenever the engine is alive and not stabilising it reads `Disallowed` -/
theorem dead_reads_disallowed (env : Env) (P : Action → Except Panic (String × Array Nat) → Prop)
    (s s' : State) (h : Run env P s s') (o : Nat) (ob : ObsRec) (ho : s.observers[o]? = some ob)
    (hst : ob.state = .disallowed ∨ ob.state = .unlinked) (ha : s'.alive = true)
    (hs : s'.status ≠ .stabilising) : s'.tryGetValue env o = .error .disallowed := by
  obtain ⟨ob', e', _, hle⟩ := h.life.obs o ob ho
  refine Props.C10.read_disallowed env s' o ob' ha hs e' ?_
  rcases hst with hst | hst <;> rw [hst] at hle <;> revert hle <;> cases ob'.state <;> decide

example : (runStates exEnv exHist 0 { s := exState }).s.tryGetValue exEnv 2 = .error .disallowed :=
  dead_reads_disallowed exEnv _ exState _ (harness_history exEnv exHist 0 { s := exState }) 2 _ rfl
    (.inl rfl) (by decide +kernel) (by decide +kernel)

/-- An observer that has been through its first stabilisation (in use or later) never reads
`NeverStabilised` again. -/
theorem started_never_unstarted (env : Env) (P : Action → Except Panic (String × Array Nat) → Prop)
    (s s' : State) (h : Run env P s s') (o : Nat) (ob : ObsRec) (ho : s.observers[o]? = some ob)
    (hst : ob.state ≠ .created) : s'.tryGetValue env o ≠ .error .neverStabilised := by
  obtain ⟨ob', e', _, hle⟩ := h.life.obs o ob ho
  rw [Props.C10.read_table env s' o ob' e']
  have : ob'.state ≠ .created := by
    revert hle hst; cases ob.state <;> cases ob'.state <;> decide
  split
  · simp
  split
  · simp
  revert this
  cases ob'.state <;> simp
  split <;> simp

example : (runStates exEnv exHist 0 { s := exState }).s.tryGetValue exEnv 0
    ≠ .error .neverStabilised :=
  started_never_unstarted exEnv _ exState _ (harness_history exEnv exHist 0 { s := exState }) 0 _ rfl
    (by decide)

/-! ## O2: exactness outside `stabilise` -/

/-- For every API action other than `stabilise`, every state, token table and outcome, the observer
table `(node, state, clones)` afterwards is `stepTable` of the table before: `observe` pushes
`(n, created, 1)` (nothing if the operand does not resolve), `cloneObs o` adds one to `clones`,
`disallow o` applies `afterDisallow` to the state, `dropObs o` takes one from `clones` and applies
`afterDisallow` when it was the last handle (nothing if no handle is left), every other action
leaves the table as it is. -/
theorem step_table (env : Env) (a : Action) (tokens : Array Nat) (s s' : State)
    (r : Except Panic (String × Array Nat)) (ha : a ≠ .stabilise)
    (hrun : (stepAction env a tokens).run.run s = (r, s')) :
    table s' = stepTable a (Action.observed s a) (table s) :=
  table_step env a tokens s s' r ha hrun

example : table ((stepAction exEnv (.dropObs 0) #[]).run.run exState).2
    = #[(1, .disallowed, 0), (0, .created, 1), (0, .disallowed, 1), (0, .unlinked, 1), (2, .inUse, 1)] :=
  (step_table exEnv (.dropObs 0) #[] exState _ _ (by intro h; cases h) (run_eta _ _)).trans
    (by decide +kernel)

/-- Every action other than `stabilise`, `observe`, `cloneObs`, `dropObs`, `disallow`, whatever its
outcome, leaves the observer table and the queues `newObservers`, `disallowedObservers` unchanged
(node construction with memoised calls and per-key operators, var writes, subscribe/unsubscribe,
`add_dependency` with its necessity cascade, `drop_all`, … ). -/
theorem other_actions_same (env : Env) (a : Action) (tokens : Array Nat) (s s' : State)
    (r : Except Panic (String × Array Nat)) (ha : Action.touchesObs a = false)
    (hrun : (stepAction env a tokens).run.run s = (r, s')) :
    table s' = table s ∧ s'.newObservers = s.newObservers ∧
      s'.disallowedObservers = s.disallowedObservers :=
  let h := (PresS.stepAction_other env a tokens ha).h s r s' hrun
  ⟨h.obs, h.newObs, h.dis⟩

example : table ((stepAction exEnv (.create (.bind 0 (.outer 1))) #[]).run.run exState).2
    = table exState :=
  (other_actions_same exEnv (.create (.bind 0 (.outer 1))) #[] exState _ _ rfl (run_eta _ _)).1

/-- closed form of `observe` -/
theorem observe_run (env : Env) (s : State) (n : Opnd) (tokens : Array Nat) :
    (stepAction env (.observe n) tokens).run.run s =
      match resolvePure s [] n with
      | .ok m => (.ok (s!"ok o{s.observers.size}", tokens), pushObserver s m)
      | .error e => (.error e, s) :=
  stepAction_observe_run env s n tokens

/-- closed form of `cloneObs` -/
theorem cloneObs_run (env : Env) (s : State) (o : Nat) (tokens : Array Nat) :
    (stepAction env (.cloneObs o) tokens).run.run s =
      (.ok ("ok", tokens),
        { s with observers := s.observers.modify o fun x => { x with clones := x.clones + 1 } }) :=
  stepAction_cloneObs_run env s o tokens

/-- closed form of `disallow` (`disallowState`: created ↦ unlinked with its handlers cleared, in use ↦
disallowed and queued in `disallowedObservers`, the active-observer counter decremented) -/
theorem disallow_run (env : Env) (s : State) (o : Nat) (tokens : Array Nat) :
    (stepAction env (.disallow o) tokens).run.run s =
      (if (s.observers[o]?).isSome then .ok ("ok", tokens)
        else .error (.site "model:no-such-observer"), disallowState s o) :=
  stepAction_disallow_run env s o tokens

/-- closed form of `dropObs`: the last handle behaves as `disallow` -/
theorem dropObs_run (env : Env) (s : State) (o : Nat) (tokens : Array Nat) :
    (stepAction env (.dropObs o) tokens).run.run s =
      (match s.observers[o]? with
        | none => .error (.site "model:no-such-observer")
        | some ob => if ob.clones = 0 then .ok ("noop", tokens) else .ok ("ok", tokens),
       dropObsState s o) :=
  stepAction_dropObs_run env s o tokens

example : ((stepAction exEnv (.dropObs 0) #[]).run.run exState).2.disallowedObservers = [2, 0] := by
  rw [dropObs_run]; decide +kernel

/-! ## O3: what a `stabilise` does to the observers -/

/-- `add_new_observers`, every outcome: the only change to the observers is that some created
observers queued in `newObservers` are now in use; `newObservers` is emptied; `disallowedObservers` is
untouched.  When it returns, no observer that was queued is still created. -/
theorem addNewObservers_spec (env : Env) (fuel : Nat) (s s' : State) (r : Except Panic Unit)
    (hrun : (addNewObservers env fuel).run.run s = (r, s')) :
    MoveIn s.newObservers (· = .created) .inUse { s with newObservers := [] } s' ∧
      (r = .ok () → ∀ o, o ∈ s.newObservers → stOf s' o ≠ some .created) :=
  Proofs.Life.addNewObservers_spec env fuel s s' r hrun

/-- `unlink_disallowed_observers`, every outcome: the only change to the observers is that some
observers queued in `disallowedObservers` are now unlinked; the queue is emptied.  When it returns,
every observer that was queued is unlinked. -/
theorem unlinkDisallowedObservers_spec (fuel : Nat) (s s' : State) (r : Except Panic Unit)
    (hrun : (unlinkDisallowedObservers fuel).run.run s = (r, s')) :
    MoveIn s.disallowedObservers (fun _ => True) .unlinked { s with disallowedObservers := [] } s' ∧
      (r = .ok () → ∀ o, o ∈ s.disallowedObservers → stOf s' o = some .unlinked) :=
  Proofs.Life.unlinkDisallowedObservers_spec fuel s s' r hrun

/-- A `stabilise` that returns, from ANY state: it was called with status `notStabilising` and ends
with it; no observer is added or removed; each observer keeps its node and clone count; its state is
`phase2` of its old state (queued in `disallowedObservers` ↦ unlinked; else queued in `newObservers`
and created ↦ in use; else unchanged) or — if an effect run during this stabilisation disallowed it —
`afterDisallow` of that; `newObservers` is empty; `disallowedObservers` lists, once each, exactly the
observers that went in use ↦ disallowed during this stabilisation. -/
theorem stabilise_spec (env : Env) (fuel : Nat) (s s' : State)
    (hrun : (stabilise env fuel).run.run s = (.ok (), s')) :
    s.status = .notStabilising ∧ s'.status = .notStabilising ∧
    s'.observers.size = s.observers.size ∧ s'.newObservers = [] ∧
    (∀ (o : Nat) (ob : ObsRec), s.observers[o]? = some ob →
      ∃ ob' : ObsRec, s'.observers[o]? = some ob' ∧ ob'.node = ob.node ∧ ob'.clones = ob.clones ∧
        (ob'.state = phase2 s o ob.state ∨ ob'.state = afterDisallow (phase2 s o ob.state))) ∧
    s'.disallowedObservers.Nodup ∧
    (∀ o : Nat, o ∈ s'.disallowedObservers ↔
      ∃ ob ob' : ObsRec, s.observers[o]? = some ob ∧ s'.observers[o]? = some ob' ∧
        phase2 s o ob.state = .inUse ∧ ob'.state = .disallowed) :=
  Proofs.Life.stabilise_spec env fuel s s' hrun

/-- the queue invariants hold in `exState` -/
theorem exState_obsWF : ObsWF exState := by
  have key : ∀ o, stOf exState o = some .created → o = 1 := by
    intro o h
    obtain ⟨ob, e, hst⟩ := stOf_eq_some.1 h
    have hlt : o < 5 := (Array.getElem?_eq_some_iff.1 e).1
    have h5 : o = 0 ∨ o = 1 ∨ o = 2 ∨ o = 3 ∨ o = 4 := by omega
    rcases h5 with rfl | rfl | rfl | rfl | rfl <;> first | rfl | (cases e; cases hst)
  have key2 : ∀ o, stOf exState o = some .disallowed → o = 2 := by
    intro o h
    obtain ⟨ob, e, hst⟩ := stOf_eq_some.1 h
    have hlt : o < 5 := (Array.getElem?_eq_some_iff.1 e).1
    have h5 : o = 0 ∨ o = 1 ∨ o = 2 ∨ o = 3 ∨ o = 4 := by omega
    rcases h5 with rfl | rfl | rfl | rfl | rfl <;> first | rfl | (cases e; cases hst)
  refine ⟨fun o h => by rw [key o h]; decide, fun o => ⟨fun h => by rw [key2 o h]; decide, fun h => ?_⟩⟩
  have : o = 2 := by simpa [exState] using h
  subst this; rfl

/-- O3, under the queue invariants `ObsWF` (every created observer is queued in `newObservers`;
`disallowedObservers` names exactly the disallowed observers): a `stabilise` that returns moves every
created observer to in use (or disallowed, if an effect disallowed it during this stabilisation),
leaves an in-use observer in use (or disallowed, likewise), unlinks every observer that was disallowed
before the call, leaves unlinked observers unlinked; afterwards `newObservers` is empty,
`disallowedObservers` lists once each exactly the observers whose state is `disallowed`, the status
is `notStabilising` again, and the invariants hold again. -/
theorem stabilise_lifecycle (env : Env) (fuel : Nat) (s s' : State) (hw : ObsWF s)
    (hrun : (stabilise env fuel).run.run s = (.ok (), s')) :
    s'.observers.size = s.observers.size ∧
    (∀ (o : Nat) (ob : ObsRec), s.observers[o]? = some ob →
      ∃ ob' : ObsRec, s'.observers[o]? = some ob' ∧ ob'.node = ob.node ∧ ob'.clones = ob.clones ∧
        match ob.state with
        | .created => ob'.state = .inUse ∨ ob'.state = .disallowed
        | .inUse => ob'.state = .inUse ∨ ob'.state = .disallowed
        | .disallowed => ob'.state = .unlinked
        | .unlinked => ob'.state = .unlinked) ∧
    s'.newObservers = [] ∧ s'.disallowedObservers.Nodup ∧
    (∀ o, o ∈ s'.disallowedObservers ↔ stOf s' o = some .disallowed) ∧
    s.status = .notStabilising ∧ s'.status = .notStabilising ∧ ObsWF s' :=
  Proofs.Life.stabilise_lifecycle env fuel s s' hw hrun

/-- on `exState` (observer 0, 4 in use, 1 created, 2 disallowed, 3 unlinked): the stabilisation
returns; the theorem applies; the computed states agree with it -/
example : ((stabilise exEnv 50).run.run exState).1 = .ok () ∧
    ((stabilise exEnv 50).run.run exState).2.observers.toList.map (·.state)
      = [.inUse, .inUse, .unlinked, .unlinked, .inUse] ∧
    ((stabilise exEnv 50).run.run exState).2.newObservers = [] := by
  have hb : ((stabilise exEnv 50).run.run exState).1.toBool = true := by decide +kernel
  have h : (stabilise exEnv 50).run.run exState
      = (.ok (), ((stabilise exEnv 50).run.run exState).2) := by
    rcases hr : (stabilise exEnv 50).run.run exState with ⟨r, s'⟩
    rw [hr] at hb
    cases r with
    | error e => cases hb
    | ok u => rfl
  exact ⟨congrArg Prod.fst h, by decide +kernel,
    (stabilise_lifecycle exEnv 50 exState _ exState_obsWF h).2.2.1⟩

/-- The queue invariants hold initially and are kept by every API action, whatever its outcome, except
by a `stabilise` that panics. -/
theorem obsWF_init (maxHeight : Nat) (debug : Bool) : ObsWF (State.init maxHeight debug) :=
  ObsWF.init maxHeight debug

theorem obsWF_step (env : Env) (a : Action) (tokens : Array Nat) (s s' : State)
    (r : Except Panic (String × Array Nat)) (hw : ObsWF s)
    (hok : a = .stabilise → ∃ v, r = .ok v)
    (hrun : (stepAction env a tokens).run.run s = (r, s')) : ObsWF s' :=
  ObsWF.step env a tokens s s' r hw hok hrun

/-- … hence along every history in which no `stabilise` panics -/
theorem obsWF_history (env : Env) (s s' : State) (h : Run env NoStabPanic s s') (hw : ObsWF s) :
    ObsWF s' :=
  h.obsWF hw

example : ObsWF ((stepAction exEnv (.observe (.abs 0)) #[]).run.run exState).2 :=
  obsWF_step exEnv (.observe (.abs 0)) #[] exState _ _ exState_obsWF (fun h => by cases h) (run_eta _ _)

/-! ## O4: handlers run only for in-use observers, and only registered handlers -/

/-- `run_all` is `runAllChecked`: the loop of `run_all` with the ghost assertion
`deliveryCheck o h.token` — "observer `o` is in use and a handler with this token is registered on it"
— inserted between `tick` and `logEv (.notif h.token upd)`.  The two programs are EQUAL (not just
equal on reachable states), so the assertion never fires: a notification is logged, and the handler's
effects run, only while the observer is in use and the handler registered. -/
theorem handlers_only_when_in_use (env : Env) (fuel o n : Nat) (nu : NodeUpdate) (now : Int) :
    runAllChecked env fuel o n nu now = runAll env fuel o n nu now :=
  runAllChecked_eq env fuel o n nu now

/-- `exState` with handler 7 subscribed on observer 0 (token 0) -/
def exSubscribed : State := ((subscribe 0 7).run.run exState).2

/-- the handler is notified while the observer is in use … -/
example : (match ((runAllChecked exEnv 10 0 1 .necessary 2).run.run exSubscribed).2.log with
    | [.notif 0 (.initialised (.int 5))] => true | _ => false) = true := by decide +kernel
example : (runAllChecked exEnv 10 0 1 .necessary 2).run.run exSubscribed
    = (runAll exEnv 10 0 1 .necessary 2).run.run exSubscribed := by rw [handlers_only_when_in_use]
/-- … and not after `disallow_future_use` -/
example : ((runAll exEnv 10 0 1 .necessary 2).run.run
    ((disallowFutureUse 0).run.run exSubscribed).2).2.log.length = 0 := by decide +kernel

/-- Everything that runs during a stabilisation after the two observer phases (`drainHeap`, hence every
`recompute` with its user effects; `stabiliseEnd`, hence every handler), whatever its outcome: an
observer that is in use afterwards was in use before and has the same registrations (token, handler
id, creation time) — in the model, user code can disallow an observer but cannot add or remove a
handler while the engine is stabilising. -/
theorem registrations_stable (env : Env) (fuel : Nat) (s s' : State) (r : Except Panic Unit)
    (hrun : (drainHeap env fuel >>= fun _ => stabiliseEnd env fuel).run.run s = (r, s'))
    (o : Nat) (ob' : ObsRec) (e' : s'.observers[o]? = some ob') (hst : ob'.state = .inUse) :
    ∃ ob : ObsRec, s.observers[o]? = some ob ∧ ob.state = .inUse ∧
      ob'.handlers.map hkey = ob.handlers.map hkey := by
  have d : Dis s s' :=
    (Pres.bind (PresD.drainHeap env fuel) fun _ => PresD.stabiliseEnd env fuel).h s r s' hrun
  obtain ⟨ob, e, rd⟩ := d.obs_back e'
  have hs : ob.state = .inUse := by
    rcases rd.state with h | h
    · rw [← h]; exact hst
    · rw [hst] at h; revert h; cases ob.state <;> simp [afterDisallow]
  refine ⟨ob, e, hs, ?_⟩
  rcases rd.handlers with h | ⟨_, h, _⟩
  · exact h
  · rw [hst] at h; cases h

/-! ## O5: reads move only at `stabilise` boundaries, for whole histories -/

/-- Between two stabilisations: along ANY list of API actions other than `stabilise`, `drop_all` and
`add_dependency` (`Between`), each with any token table and whatever its outcome, an observer whose
lifecycle state at the end is what it was at the start reads at the end exactly what it read at the
start.  `MapRefsBackward` and `ObsNodesInRange` (see `Props/C07.lean`) are hypotheses about the
initial state only. -/
theorem reads_between_stabilisations (env : Env) (s s' : State) (h : Run env Between s s')
    (hwf : MapRefsBackward s) (hobs : ObsNodesInRange s) (o : Nat) (st : ObsState)
    (hs : stOf s o = some st) (hs' : stOf s' o = some st) :
    s'.tryGetValue env o = s.tryGetValue env o := by
  obtain ⟨ob, e, h1⟩ := stOf_eq_some.1 hs
  obtain ⟨ob', e', h2⟩ := stOf_eq_some.1 hs'
  exact h.read_eq env hwf hobs o ob ob' e e' (h2.trans h1.symm)

/-- what the harness runs is such a history when the actions are of that kind -/
theorem harness_between (env : Env) (as : List Action) (h : ∀ a ∈ as, Action.keepsReads a = true)
    (idx : Nat) (rs : RunState) : Run env Between rs.s (runStates env as idx rs).s :=
  run_runStates env _ as (fun a ha _ => h a ha) idx rs

/-- a write, a node construction over the observed node, a new observer, the disallowing of another
observer, a dropped handle, a subscription -/
def exBetween : List Action :=
  [.set 0 (.int 7), .create (.mapRef 0 (.outer 1)), .observe (.abs 1), .disallow 4, .dropObs 1,
   .subscribe 0 3]

example : (runStates exEnv exBetween 0 { s := exState }).s.tryGetValue exEnv 0 = .ok (.int 5) :=
  (reads_between_stabilisations exEnv exState _
    (harness_between exEnv exBetween (by decide) 0 { s := exState })
    exState_mapRefsBackward exState_obsNodesInRange 0 .inUse rfl (by decide +kernel)).trans rfl

/-- the var really was written, and observer 4 really was disallowed, in that history -/
example : ((runStates exEnv exBetween 0 { s := exState }).s.vars[0]?.map (·.value)) = some (.int 7) ∧
    stOf (runStates exEnv exBetween 0 { s := exState }).s 4 = some .disallowed := by
  decide +kernel

/-! ## C09, observer side: no callback after `unsubscribe`, `disallow_future_use`, the last `drop` -/

/-- registered tokens have been issued and belong to one observer: true initially … -/
theorem tokWF_init (maxHeight : Nat) (debug : Bool) : TokWF (State.init maxHeight debug) :=
  TokWF.init maxHeight debug

/-- … and kept along every history (any actions, any outcomes) -/
theorem tokWF_history (env : Env) (P : Action → Except Panic (String × Array Nat) → Prop)
    (s s' : State) (h : Run env P s s') (hw : TokWF s) : TokWF s' :=
  h.tokWF hw

/-- Once a token is dead — issued, and not registered on any observer that is created or in use — it
stays dead along every history (any actions, any outcomes, `subscribe` included: tokens are fresh),
and every event in the log at the end that was not in the log at the start is not a notification for
it. -/
theorem dead_stays_dead_and_silent (env : Env) (P : Action → Except Panic (String × Array Nat) → Prop)
    (s s' : State) (h : Run env P s s') (tok : Nat) (hd : Dead s tok) :
    Dead s' tok ∧ ∀ e, e ∈ s'.log → e ∈ s.log ∨ ∀ u, e ≠ .notif tok u :=
  h.mute tok hd

/-- the same per action, in the form the harness uses (the log is reset before each action): the events
of one action contain no notification for a dead token -/
theorem step_logs_no_dead_notification (env : Env) (a : Action) (tokens : Array Nat) (s s' : State)
    (r : Except Panic (String × Array Nat)) (tok : Nat) (hd : Dead s tok)
    (hrun : (stepAction env a tokens).run.run { s with log := [] } = (r, s')) (u : Update) :
    Event.notif tok u ∉ s'.log := by
  have h0 : Dead { s with log := [] } tok := hd
  intro hmem
  rcases ((PresMu.stepAction tok env a tokens).h _ _ _ hrun h0).2 _ hmem with h | h
  · exact absurd h List.not_mem_nil
  · exact h u rfl

/-- `disallow_future_use o` kills every subscription of `o` -/
theorem disallow_kills (s : State) (hw : TokWF s) (o : Nat) (ob : ObsRec)
    (e : s.observers[o]? = some ob) (tok : Nat) (ht : tok ∈ tokensOf ob) :
    Dead (disallowState s o) tok :=
  dead_of_disallowState hw o ob e tok ht

/-- dropping the last handle of `o` kills every subscription of `o` -/
theorem last_drop_kills (s : State) (hw : TokWF s) (o : Nat) (ob : ObsRec)
    (e : s.observers[o]? = some ob) (hc : ob.clones = 1) (tok : Nat) (ht : tok ∈ tokensOf ob) :
    Dead (dropObsState s o) tok :=
  dead_of_dropObsState hw o ob e hc tok ht

/-- `unsubscribe` kills the subscription -/
theorem unsubscribe_kills (s s' : State) (hw : TokWF s) (o : Nat) (ob : ObsRec)
    (e : s.observers[o]? = some ob) (tok : Nat) (ht : tok ∈ tokensOf ob)
    (r : Except Panic (Except ObsError Unit))
    (hrun : (unsubscribe o tok o).run.run s = (r, s')) : Dead s' tok :=
  dead_of_unsubscribe hw o ob e tok ht r hrun

/-- No callback after `disallow_future_use` (or after the last `drop`, with `dropObsState`): from the
state right after `disallow o`, along ANY history, no notification is ever logged for a token that was
registered on `o`. -/
theorem no_callback_after_disallow (env : Env) (P : Action → Except Panic (String × Array Nat) → Prop)
    (s s2 : State) (hw : TokWF s) (o : Nat) (ob : ObsRec) (e : s.observers[o]? = some ob)
    (tok : Nat) (ht : tok ∈ tokensOf ob) (h : Run env P (disallowState s o) s2) :
    ∀ ev, ev ∈ s2.log → ev ∈ (disallowState s o).log ∨ ∀ u, ev ≠ .notif tok u :=
  (h.mute tok (disallow_kills s hw o ob e tok ht)).2

/-- No callback after `unsubscribe`. -/
theorem no_callback_after_unsubscribe (env : Env)
    (P : Action → Except Panic (String × Array Nat) → Prop) (s s1 s2 : State) (hw : TokWF s) (o : Nat)
    (ob : ObsRec) (e : s.observers[o]? = some ob) (tok : Nat) (ht : tok ∈ tokensOf ob)
    (r : Except Panic (Except ObsError Unit)) (hrun : (unsubscribe o tok o).run.run s = (r, s1))
    (h : Run env P s1 s2) :
    ∀ ev, ev ∈ s2.log → ev ∈ s1.log ∨ ∀ u, ev ≠ .notif tok u :=
  (h.mute tok (unsubscribe_kills s s1 hw o ob e tok ht r hrun)).2

/-- `exState` has no subscriptions, so `exSubscribed` has exactly token 0 on observer 0 -/
theorem exSubscribed_tokWF : TokWF exSubscribed := by
  have h0 : TokWF exState := by
    have key : ∀ (o : Nat) (ob : ObsRec), exState.observers[o]? = some ob → tokensOf ob = [] := by
      intro o ob e
      have hlt : o < 5 := (Array.getElem?_eq_some_iff.1 e).1
      have h5 : o = 0 ∨ o = 1 ∨ o = 2 ∨ o = 3 ∨ o = 4 := by omega
      rcases h5 with rfl | rfl | rfl | rfl | rfl <;> (cases e; rfl)
    refine ⟨fun o ob e t ht => ?_, fun o o' ob ob' e _ t ht _ => ?_⟩
    · rw [key o ob e] at ht; cases ht
    · rw [key o ob e] at ht; cases ht
  exact (PresT.subscribe 0 7).h exState _ _ (run_eta _ _) h0

/-- a history: stabilise, write the var, stabilise -/
def exAfter : List Action := [.stabilise, .set 0 (.int 9), .stabilise]

/-- without the `disallow`, the subscription is notified in that history (`Changed 9` is the last
action's event) … -/
example : (match (runStates exEnv exAfter 0 { s := exSubscribed }).s.log with
    | [.notif 0 (.changed (.int 9))] => true | _ => false) = true := by decide +kernel

/-- … after `disallow 0` the theorem applies: no notification for token 0 in the log at the end -/
example : ∀ u, Event.notif 0 u ∉ (runStates exEnv exAfter 0 { s := disallowState exSubscribed 0 }).s.log := by
  intro u hmem
  have h := no_callback_after_disallow exEnv _ exSubscribed _ exSubscribed_tokWF 0 _ rfl 0
    (by decide) (harness_history exEnv exAfter 0 { s := disallowState exSubscribed 0 }) _ hmem
  rcases h with h | h
  · have : (disallowState exSubscribed 0).log = [] := rfl
    rw [this] at h; cases h
  · exact h u rfl

end IncrVerif.Props.C10History
