import IncrVerif.Proofs.GenF5
import IncrVerif.Proofs.GenF7
import IncrVerif.Proofs.GenF8
/-!
# C03 (nodes built inside a bind never run after its input changed; they become invalid) for the COMBINED fragment of `C01Full`

Property C03: *once the left-hand side of a bind has changed, no function of a node that was created by the previous run of the bind closure is ever invoked again (in that
`stabilise` or later).  Such nodes, and every map-like node that takes one of them as input, become invalid; observers of invalid nodes report `ObservingInvalid`.*

`Props/C03` proves "invalid is forever" for all programs, `Props/C03Order` / `C03Nested` the ordering part for binds over the static core.  This file proves the property for WHOLE
HISTORIES of the combined fragment.

## THE FRAGMENT (exactly the one of `C01Full` / `C02Full`: `FullH.HistFull env sp 0 acts`, `FullH.EnvS env sp`, `FullH.FirstFn env`)
binds (incl. nested, any depth) + `map_ref` + `map_with_old` + `depend_on` + the `cutoff n never/eq` action + the static core, observers created / cloned / dropped / disallowed,
the five variable writes, in any interleaving.  See the header of `Props/C01Full.lean`.  `QInvFE env sp s` = the invariant between API actions (holds in every state such a history
reaches: `C01Full.history_inv`), `DInvF … s g x` = the drain invariant (holds whenever the drain of such a `stabilise` hands a node to `recomputeOne`: `C02Full.drain_once`).

## DEFINITIONS (on the model's own data; `Proofs/GenF1`, `GenF5`)
* `GenF.Reg s b n`  — `n` is in the generation list of bind `b` in `s`: `∃ br, s.binds[b]? = some br ∧ n ∈ br.allNodesCreatedOnRhs` (the model's `all_nodes_created_on_rhs`).
* `GenF.Dead s n`   — NODE `n` BELONGS TO A DEAD GENERATION IN `s`: `n < s.nodes.size`, `(s.nodeD n).createdIn = .bind b` (it was created by a run of `b`'s closure — or is the
  change detector / main node of a bind created by that closure), `s.binds[b]? = some br`, and `n ∉ br.allNodesCreatedOnRhs` (it is not of `b`'s CURRENT generation: the change
  detector of `b` has re-run since — or an enclosing generation died, which empties the list of the inner record).  `unreg_dead` justifies the definition: a node that WAS
  registered in `b`'s list in an earlier state and is not registered in it now is `Dead` now (the scope field `createdIn` of an existing node is never changed and bind records
  are never removed: `createdIn_frame`, every API action, every outcome, all programs).  `deadB` / `deadB_iff`: Boolean version.

## PROVED HERE (for the model, both `cfg.debug` settings; partial correctness: each statement assumes that the call / the history returns `.ok`)
* (0) DEAD ⇒ INVALID — `dead_invalid` (between API actions, from `QInvFE`), `dead_invalid_drain` (in every state in which the drain hands a node to `recomputeOne` / ends, from
  `DInvF`); conversely `invalid_scope_dead` (between actions an invalid closure-created node is dead: in the fragment dying generations are the ONLY source of invalid nodes of a
  scope).  From `NestH.All2.gen` of the virtual state: the registered nodes of a bind are exactly the valid nodes of its scope.
* (1) NO DEAD-GENERATION NODE RUNS — `stabilise_no_dead_runs` (one `stabilise` from `QInvFE`), `history_no_dead_runs` (every `stabilise` of every history of the fragment run
  from `State.init N d`) — `GenF.NoDeadStab env fuel s s'` (`t2` = the state in which the drain starts, tied to the run by the four phase equations as in `C02Full`):
  - for every step `p ∈ drainSteps env fuel t2` (node `p.1` handed to `recomputeOne` in state `p.2`): `¬ Dead p.2 p.1`; and every node dead in `p.2` is invalid in `p.2`;
  - no node of `drainTrace env fuel t2` is dead in the final state `s'`;
  - a node that is invalid (in particular: dead) when `stabilise` is called is not in the trace.
  `stabilise_dying` / `history_dying` — `GenF.DyingStab env fuel s s'`: THE GENERATION THAT DIES IN THIS `stabilise` DOES NOT RUN IN IT: a node registered in `b`'s list when
  `stabilise` is called and not registered in it when it returns is dead and invalid at the end and is NOT in the drain trace — neither before nor after the run of the change
  detector.  (Method: dead ⇒ invalid; `C02Full`: a node that runs is valid when it runs and still valid at the end of the `stabilise`.)  With the local theorems of `Props/C02`
  (one `recomputeOne` = one invocation of the node's function; functions are invoked nowhere else) this is "no function of a dead-generation node is invoked".
  `step_unreg_dead`: the same bookkeeping at the granularity of ONE `recomputeOne` from the drain invariant (any outcome): registered before, not registered after ⇒ dead after.
  `lc_step_kills_generation` — THE RUN OF A CHANGE DETECTOR KILLS ITS WHOLE PREVIOUS GENERATION: drain invariant with current node `n` = change detector of `b`, the record has a rhs
  (the closure has run before), `recomputeOne env fuel n` returns ⇒ the drain invariant holds again and EVERY node of the record's old list is dead, invalid and registered in NO
  bind's list afterwards (`C03.lhs_change_invalidates_old_generation` + `All2.gen` after the step); by (2) for ever, by (1) it never runs again.
* (2) DEAD MEANS INVALID FOR EVER — `dead_forever`: a node dead in a state with `QInvFE` exists and is invalid in EVERY state reached from it by ANY list of API actions (no fragment
  hypothesis on the continuation: `C03.invalidation_is_forever` lifted to histories, `mono_history`), and is still `Dead` there if that state satisfies the invariant.
  `history_dead_forever`: for a history `as ++ bs ++ cs` of the fragment from the initial state, every node registered in some bind's list after `as` and not registered in it
  after `as ++ bs` is dead and invalid after `as ++ bs` and after `as ++ bs ++ cs`; by (1) it is in the drain trace of no later `stabilise`.
* (3) OBSERVERS — VACUOUS in this fragment, and proved so: `dead_not_observed`: between API actions no observer record (in use or not) names a dead node (closure-created nodes
  cannot be named from outside; `QInv2.obsTop`).  So "observers of dead nodes read `ObservingInvalid`" has no instance here; the read table is `Props/C10`, and
  `C03.dead_node_reads_invalid` covers an observer of an invalid node without stored value for all programs.
* NON-VACUITY (kernel-checked, `Proofs/GenF6–7`): `exHistF` of `C01Full` (outer bind whose closure builds a map_ref chain, two machines and a NESTED bind).  All hypotheses hold
  and (1) applies at each of its seven `stabilise`s.  At the fourth (`exHistF.take 11` → `take 12`, the outer lhs flips; drain trace `[1, 3, 14, 4]` by `C02Full`): before, no node
  is dead and the records list `[5…11]` (outer) and `[12, 13]` (inner); after, EXACTLY the nodes `5…13` are dead and exactly they are invalid — the outer generation including the
  inner bind's change detector 9 and main node 10, and the inner generation 12, 13 (whose record now lists nothing) —, the outer record lists the new generation `[14]`.  At the end
  of the history `5…14` and `22` are dead and invalid.

## ASSUMED / NOT PROVED HERE
* Partial correctness only; everything `C01Full` lists as outside the fragment is outside here (user cutoffs, expert nodes, closures over younger nodes, effects, …).
* `lc_step_kills_generation` is a statement about ONE successful run of a change detector from the drain invariant; it is not threaded through `drainSteps` here (the list of
  steps names the state in which each step STARTS, not the one it ends in), so the history-level theorems are phrased with "registered before, not registered after".  That the
  change detector re-runs exactly when its lhs changed is scheduling (`C01Full` / `C02Full`), not restated here.
* "Every map-like node that takes a dead node as input becomes invalid": covered only through the generation invariant (`NestH.All2`: children of a node of scope `b` are top-level
  or of the same scope and generation — so every closure-created consumer of a dead node is itself dead, hence invalid; a top-level node never has a closure-created child except
  the current rhs of a main node).  Not stated separately, because an invalid node has no child list left in the model (`C03.invalid_no_children`).
* The link from the trace to function invocations (`inv` events) is the local theorem of `Props/C02`, not re-proved here.
-/
namespace IncrVerif.Props.C03Full
open IncrVerif.Engine IncrVerif.Driver IncrVerif.Proofs IncrVerif.Proofs.Sched IncrVerif.Proofs.TidyH IncrVerif.Proofs.FullH IncrVerif.Proofs.OnceF
open IncrVerif.Proofs.GenF

/-- **(0) DEAD ⇒ INVALID**, between API actions -/
theorem dead_invalid {env : Env} {sp : Nat → Val → Val} {s : State} {n : Nat} (Q : QInvFE env sp s) (h : Dead s n) :
    (s.nodeD n).valid = false := dead_invalid_q Q h

/-- **(0) DEAD ⇒ INVALID**, in every state with the drain invariant -/
theorem dead_invalid_drain {env : Env} {sp : Nat → Val → Val} {t s : State} {g : Nat → Option Val} {x : Option Nat} {n : Nat}
    (D : DInvF env sp t s g x) (h : Dead s n) : (s.nodeD n).valid = false := dead_invalid_d D h

/-- a registered node is an existing, valid node created in the bind's scope -/
theorem reg_facts {env : Env} {sp : Nat → Val → Val} {s : State} {b n : Nat} (Q : QInvFE env sp s) (h : Reg s b n) :
    n < s.nodes.size ∧ (s.nodeD n).valid = true ∧ (s.nodeD n).createdIn = .bind b := reg_facts_q Q h

/-- conversely: between API actions an existing invalid node of a scope is dead -/
theorem invalid_scope_dead {env : Env} {sp : Nat → Val → Val} {s : State} {b n : Nat} {br : BindRec} (Q : QInvFE env sp s) (hn : n < s.nodes.size)
    (hc : (s.nodeD n).createdIn = .bind b) (hb : s.binds[b]? = some br) (hv : (s.nodeD n).valid = false) : Dead s n :=
  invalid_scope_dead_q Q hn hc hb hv

/-- the frame behind the definition of `Dead`: every API action, every outcome, all programs — no node is removed, existing nodes keep their scope field, bind records stay -/
theorem createdIn_frame (env : Env) (a : Action) (tk : Array Nat) (s s' : State) (r : Except Panic (String × Array Nat))
    (h : (stepAction env a tk).run.run s = (r, s')) :
    s.nodes.size ≤ s'.nodes.size ∧ (∀ m, m < s.nodes.size → (s'.nodeD m).createdIn = (s.nodeD m).createdIn) ∧
      ∀ (b : Nat) (br : BindRec), s.binds[b]? = some br → ∃ br' : BindRec, s'.binds[b]? = some br' :=
  have K := (CK.PresCK.stepAction env a tk).h s r s' h
  ⟨K.size, K.cin, fun b br hb => (K.binds b br hb).imp fun _ x => x.1⟩

/-- **(1) NO DEAD-GENERATION NODE RUNS**, one `stabilise` from the invariant between API actions (`NoDeadStab` unfolded) -/
theorem stabilise_no_dead_runs {env : Env} {sp : Nat → Val → Val} (E : EnvS env sp) (hF : FirstFn env) {fuel : Nat} {s s' : State} (Q : QInvFE env sp s)
    (h : (stabilise env fuel).run.run s = (.ok (), s')) :
    ∃ t1 t2 t3,
      (addNewObservers env fuel).run.run { s with status := .stabilising } = (.ok (), t1) ∧
      (unlinkDisallowedObservers fuel).run.run t1 = (.ok (), t2) ∧
      (drainHeap env fuel).run.run t2 = (.ok (), t3) ∧ (stabiliseEnd env fuel).run.run t3 = (.ok (), s') ∧
      (drainSteps env fuel t2).map (·.1) = drainTrace env fuel t2 ∧
      (∀ p, p ∈ drainSteps env fuel t2 → ¬ Dead p.2 p.1) ∧
      (∀ p, p ∈ drainSteps env fuel t2 → ∀ m, Dead p.2 m → (p.2.nodeD m).valid = false) ∧
      (∀ m, m ∈ drainTrace env fuel t2 → ¬ Dead s' m) ∧
      (∀ m, m < s.nodes.size → (s.nodeD m).valid = false → m ∉ drainTrace env fuel t2) :=
  stabilise_noDead E hF Q h

/-- **(1) the generation that dies in a `stabilise` does not run in it** (`DyingStab` unfolded) -/
theorem stabilise_dying {env : Env} {sp : Nat → Val → Val} (E : EnvS env sp) (hF : FirstFn env) {fuel : Nat} {s s' : State} (Q : QInvFE env sp s)
    (h : (stabilise env fuel).run.run s = (.ok (), s')) :
    ∃ t1 t2 t3,
      (addNewObservers env fuel).run.run { s with status := .stabilising } = (.ok (), t1) ∧
      (unlinkDisallowedObservers fuel).run.run t1 = (.ok (), t2) ∧
      (drainHeap env fuel).run.run t2 = (.ok (), t3) ∧ (stabiliseEnd env fuel).run.run t3 = (.ok (), s') ∧
      ∀ b m, Reg s b m → ¬ Reg s' b m → Dead s' m ∧ (s'.nodeD m).valid = false ∧ m ∉ drainTrace env fuel t2 :=
  GenF.stabilise_dying E hF Q h

/-- (1) one `recomputeOne` from the drain invariant, whatever its outcome: registered before, not registered after ⇒ dead after -/
theorem step_unreg_dead {env : Env} {sp : Nat → Val → Val} {fuel n : Nat} {t s s' : State} {g : Nat → Option Val} {x : Option Nat}
    {r : Except Panic (Option Nat)} (D : DInvF env sp t s g x) (h : (recomputeOne env fuel n).run.run s = (r, s')) {b m : Nat}
    (hr : Reg s b m) (hu : ¬ Reg s' b m) : Dead s' m :=
  GenF.step_unreg_dead D h hr hu

/-- **(1)/(2) the run of a change detector kills its whole previous generation**: every node of the old list is dead, invalid and registered nowhere afterwards -/
theorem lc_step_kills_generation {env : Env} {sp : Nat → Val → Val} (E : EnvS env sp) (hF : FirstFn env) {t s s' : State} {g : Nat → Option Val}
    {fuel n b r0 : Nat} {br : BindRec} {r : Option Nat} (D : DInvF env sp t s g (some n)) (hk : (s.nodeD n).kind = .bindLhsChange b)
    (hb : s.binds[b]? = some br) (hr : br.rhs = some r0) (h : (recomputeOne env fuel n).run.run s = (.ok r, s')) :
    ∃ g', DInvF env sp t s' g' r ∧
      ∀ m, m ∈ br.allNodesCreatedOnRhs → Dead s' m ∧ (s'.nodeD m).valid = false ∧ ∀ b', ¬ Reg s' b' m :=
  GenF.lc_step_kills_generation E hF D hk hb hr h

/-- **(1) AT EVERY `stabilise` OF EVERY HISTORY OF THE COMBINED FRAGMENT** run from the initial state: `C02Full`'s at-most-once statement and "no dead-generation node runs" -/
theorem history_no_dead_runs {env : Env} {sp : Nat → Val → Val} (E : EnvS env sp) (hF : FirstFn env) {N : Nat} {d : Bool} {as bs : List Action}
    {s : State} {tk : Array Nat} (hH : HistFull env sp 0 (as ++ Action.stabilise :: bs))
    (h : Quiet.runActions env (as ++ Action.stabilise :: bs) (State.init N d) #[] = .ok (s, tk)) :
    ∃ s1 tk1 s2, Quiet.runActions env as (State.init N d) #[] = .ok (s1, tk1) ∧ QInvFE env sp s1 ∧
      (stabilise env fuelDefault).run.run s1 = (.ok (), s2) ∧ QInvFE env sp s2 ∧
      OnceStab env fuelDefault s1 s2 ∧ NoDeadStab env fuelDefault s1 s2 ∧
      Quiet.runActions env bs s2 tk1 = .ok (s, tk) :=
  history_noDead E hF hH h

/-- (1) the dying generation, at every `stabilise` of every history of the combined fragment -/
theorem history_dying {env : Env} {sp : Nat → Val → Val} (E : EnvS env sp) (hF : FirstFn env) {N : Nat} {d : Bool} {as bs : List Action}
    {s : State} {tk : Array Nat} (hH : HistFull env sp 0 (as ++ Action.stabilise :: bs))
    (h : Quiet.runActions env (as ++ Action.stabilise :: bs) (State.init N d) #[] = .ok (s, tk)) :
    ∃ s1 tk1 s2, Quiet.runActions env as (State.init N d) #[] = .ok (s1, tk1) ∧
      (stabilise env fuelDefault).run.run s1 = (.ok (), s2) ∧ DyingStab env fuelDefault s1 s2 ∧
      Quiet.runActions env bs s2 tk1 = .ok (s, tk) :=
  GenF.history_dying E hF hH h

/-- `Inval.Mono` along every history, whatever the actions: no node removed, an invalid node stays invalid -/
theorem mono_history (env : Env) (acts : List Action) (s s' : State) (tk tk' : Array Nat)
    (h : Quiet.runActions env acts s tk = .ok (s', tk')) (n : Nat) (hn : n < s.nodes.size) (hv : (s.nodeD n).valid = false) :
    n < s'.nodes.size ∧ (s'.nodeD n).valid = false :=
  have M := mono_runActions env acts s s' tk tk' h
  ⟨Nat.lt_of_lt_of_le hn M.size, M.keep n hn hv⟩

/-- **the definition of `Dead` is the historical one**: registered in `b`'s list in `s0`, not registered in it in a state reached from `s0` ⇒ dead there -/
theorem unreg_dead {env : Env} {sp : Nat → Val → Val} {s0 s1 : State} {acts : List Action} {tk tk' : Array Nat} {b n : Nat} (Q0 : QInvFE env sp s0)
    (h : Quiet.runActions env acts s0 tk = .ok (s1, tk')) (hr : Reg s0 b n) (hu : ¬ Reg s1 b n) : Dead s1 n :=
  GenF.unreg_dead Q0 h hr hu

/-- **(2) DEAD MEANS INVALID FOR EVER** — any continuation, no fragment hypothesis on it -/
theorem dead_forever {env : Env} {sp : Nat → Val → Val} {s1 s2 : State} {acts : List Action} {tk tk' : Array Nat} {n : Nat} (Q1 : QInvFE env sp s1)
    (hd : Dead s1 n) (h : Quiet.runActions env acts s1 tk = .ok (s2, tk')) :
    n < s2.nodes.size ∧ (s2.nodeD n).valid = false ∧ (QInvFE env sp s2 → Dead s2 n) :=
  GenF.dead_forever Q1 hd h

/-- **(2) whole histories of the combined fragment** -/
theorem history_dead_forever {env : Env} {sp : Nat → Val → Val} (E : EnvS env sp) (hF : FirstFn env) {N : Nat} {d : Bool} {as bs cs : List Action}
    {s : State} {tk : Array Nat} (hH : HistFull env sp 0 (as ++ (bs ++ cs)))
    (h : Quiet.runActions env (as ++ (bs ++ cs)) (State.init N d) #[] = .ok (s, tk)) :
    ∃ s0 tk0 s1 tk1, Quiet.runActions env as (State.init N d) #[] = .ok (s0, tk0) ∧
      Quiet.runActions env bs s0 tk0 = .ok (s1, tk1) ∧ Quiet.runActions env cs s1 tk1 = .ok (s, tk) ∧
      QInvFE env sp s0 ∧ QInvFE env sp s1 ∧ QInvFE env sp s ∧
      ∀ b n, Reg s0 b n → ¬ Reg s1 b n →
        Dead s1 n ∧ (s1.nodeD n).valid = false ∧ Dead s n ∧ n < s.nodes.size ∧ (s.nodeD n).valid = false :=
  GenF.history_dead_forever E hF hH h

/-- **(3) vacuity of the observer clause in this fragment**: no observer record names a dead node -/
theorem dead_not_observed {env : Env} {sp : Nat → Val → Val} {s : State} {n : Nat} (Q : QInvFE env sp s) (hd : Dead s n) :
    ∀ (o : Nat) (ob : ObsRec), s.observers[o]? = some ob → ob.node ≠ n :=
  GenF.dead_not_observed Q hd

/-- the Boolean test -/
theorem deadB_iff (s : State) (n : Nat) : deadB s n = true ↔ Dead s n := GenF.deadB_iff s n

/-! ## non-vacuity -/

/-- the hypotheses hold for `exHistF` of `C01Full`, so (1) holds at each of its seven `stabilise`s -/
example : EnvS fEnv fSp ∧ FirstFn fEnv ∧ HistFull fEnv fSp 0 exHistF ∧
    (∀ {as bs : List Action}, exHistF = as ++ Action.stabilise :: bs →
      ∃ s tk s1 tk1 s2, Quiet.runActions fEnv exHistF (State.init 128 true) #[] = .ok (s, tk) ∧
        Quiet.runActions fEnv as (State.init 128 true) #[] = .ok (s1, tk1) ∧ QInvFE fEnv fSp s1 ∧
        (stabilise fEnv fuelDefault).run.run s1 = (.ok (), s2) ∧ QInvFE fEnv fSp s2 ∧
        NoDeadStab fEnv fuelDefault s1 s2 ∧ DyingStab fEnv fuelDefault s1 s2 ∧
        Quiet.runActions fEnv bs s2 tk1 = .ok (s, tk)) :=
  ⟨fEnv_envS, fEnv_first, exHistF_frag, fun e => exHistF_c03 e⟩

/-- the `stabilise` of `exHistF` in which the outer lhs flips (`s1` after 11 actions → `s2`): the theorems apply; no node is dead in `s1`; EXACTLY the nodes `5…13` (outer generation
incl. the inner bind's two nodes 9, 10, and the inner generation 12, 13) are dead in `s2`, and exactly they are invalid; the drain trace of this round is `[1, 3, 14, 4]` -/
example : (∃ s1 s2, BindH.C2h.stateB fEnv (exHistF.take 11) = some s1 ∧ BindH.C2h.stateB fEnv (exHistF.take 12) = some s2 ∧
      QInvFE fEnv fSp s1 ∧ QInvFE fEnv fSp s2 ∧ (stabilise fEnv fuelDefault).run.run s1 = (.ok (), s2) ∧
      NoDeadStab fEnv fuelDefault s1 s2 ∧ DyingStab fEnv fuelDefault s1 s2 ∧
      (∀ m, ¬ Dead s1 m) ∧
      (∀ m, Dead s2 m ↔ m ∈ [5, 6, 7, 8, 9, 10, 11, 12, 13]) ∧
      (∀ m, (m < s2.nodes.size ∧ (s2.nodeD m).valid = false) ↔ m ∈ [5, 6, 7, 8, 9, 10, 11, 12, 13])) ∧
    EX.traceAfter (exHistF.take 11) = some [1, 3, 14, 4] :=
  ⟨exHistF_flip_dead, exHistF_traces.2.2.2.1⟩

/-- dead nodes, invalid nodes and generation lists of the records (kernel-checked): before the flip, after it, at the end of the history -/
example :
    (BindH.C2h.stateB fEnv (exHistF.take 11)).map summary = some ([], [], [[5, 6, 7, 8, 9, 10, 11], [12, 13]]) ∧
    (BindH.C2h.stateB fEnv (exHistF.take 12)).map summary =
      some ([5, 6, 7, 8, 9, 10, 11, 12, 13], [5, 6, 7, 8, 9, 10, 11, 12, 13], [[14], []]) ∧
    (BindH.C2h.stateB fEnv exHistF).map summary =
      some ([5, 6, 7, 8, 9, 10, 11, 12, 13, 14, 22], [5, 6, 7, 8, 9, 10, 11, 12, 13, 14, 22], [[15, 16, 17, 18, 19, 20, 21], [], [23, 24]]) :=
  exHistF_summaries

end IncrVerif.Props.C03Full
