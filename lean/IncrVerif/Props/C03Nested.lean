import IncrVerif.Proofs.NestH67
import IncrVerif.Proofs.NestH68
import IncrVerif.Proofs.NestH75
import IncrVerif.Proofs.NestH118
import IncrVerif.Proofs.NestH119
import IncrVerif.Proofs.NestH123
/-!
# C03 for NESTED binds (fragment F2) — binds created inside a bind's scope

Continues `Props/C03Order.lean` (fragments F0/F1).  A closure may now contain `bind body' o` instructions: `createBind` inside scope `.bind b` pushes a FRESH bind
record `b2`, and creates its change detector and main node IN SCOPE `.bind b` (both registered in `b`'s `allNodesCreatedOnRhs`); when the inner change detector
runs, its closure creates nodes in scope `.bind b2` (again `const`/`lhsConst`/pure `map`/`fold`/`bind`, over top-level handles older than the OUTERMOST bind and its own
earlier locals).  When the outer change detector runs again, `invalidateNode` on the inner main node recursively invalidates the inner generation.

## PROVED HERE (all for the model, debug mode, partial correctness: the call / history is assumed to return `.ok`)

PURE PART (`Proofs/NestH1–3`).  `NestH.StepL2` — the contract of a run of a change detector when the bind table may GROW, other records may lose their list of
registered nodes, and the nodes that die are those connected to the change detector through scope/child edges (`Below s m n`; `StepL.toL2`: the flat contract implies it).
`stepL2_inv` (`DInv` is kept), `LcStepsOK2`, `drainHeap_valuesB2`, `drain_onceB2`: the drain theorems of `C03Order` for `StepL2`.  (`DInv`, `Edge`, `Below`, `BGraph`, `StepRelB`,
`OrderInv` and the B1 ordering lemmas are UNCHANGED: they never assumed that change detectors are top-level.)

STRUCTURE (`Proofs/NestH4–6`).  `NestH.GInv2 env rk s op ex dy`: the structural invariant with open nodes; the rank is a GHOST `rk : Nat → Nat` (decreasing along child
edges and from a scope node to the change detector of its scope; a node of scope `b` lies strictly between `lc_b` and `main_b`; injective); `All2` allows
`bindLhsChange`/`bindMain` nodes inside scopes, dead records, `scopeValid`, `recValid`.  THE SCOPE HEIGHT RULE `scopeH` is stated as in F1 but now holds along chains of
scopes (`lc_b < lc_b2 < nodes of b2`).  `GInv2.scope_no_parents` (scope necessity), `bgraph_of_ginv2`.
CASCADES in rank order: `becameNecessary_spec2`, `addParentWithoutAdjustingHeights_spec2` (`NestH8–12`), `checkIfUnnecessary_spec2`, `becameUnnecessary_spec2`,
`removeChildren_spec2`, `removeParent_*2` (`NestH13–16`), `adjustHeights_spec2` (`NestH17–18`: the loop over `allNodesCreatedOnRhs` of a raised change detector raises inner
change detectors, which are then popped and raise THEIR scopes).
THE FOUR PHASES of a run of a change detector (`NestH19`: contracts): `closure_spec2 : ClosureSpec2 env` (`NestH20–25`: `elabTemplate` incl. `createBind` in a scope; the ghost
rank is extended: `RkExt`), `relink_spec2 : RelinkSpec2 env` (`NestH26–30`: the bind may itself be an inner bind; old/new rhs may be inner main nodes), `inval_spec2 :
InvalSpec2 env` (`NestH31–35`: `Dying` = the old generation and, recursively, the generations of its inner binds; induction on the fuel of `invalidateNode`),
`recomputeOne_lcF2` (`NestH36–40`): the run satisfies `StepL2` and keeps `F2Inv`.  `lcStepF2`, `lcStepsOK_F2'` (`NestH68`).
DRAIN, `stabilise`, API ACTIONS, HISTORIES without any hypothesis on the steps: `drainHeap_F2'`, `drain_once_F2'` (`NestH42,68`), `QInv2`/`QI2` (`NestH43`: invariant between
actions), `step_create2` (`NestH44–48`), `step_observe2`…`step_write2` (`NestH49–50`), `addNewObservers_s2`, `unlinkDisallowedObservers_s2` (`NestH51–52`), `stabilise_F2'`
(`NestH53–58,68`), `step_q2'`, `history_q2'`, `history_prefix2'` (`NestH64–66,68`).
SEMANTICS: `NestH.den2`/`denBody` (`NestH59`): the specification-level from-scratch semantics, recursive through nested closures (a `bind body' o` instruction of a template: evaluate
`o`, apply the closure `body'`, evaluate the template it yields); no node created by a closure is looked at.  `GenOK2` ("generations are current": the registered nodes of every LIVE,
non-stale change detector are the image `ElabOf2` of the template for the current lhs value; an inner bind contributes its change detector and its main node).  `den2_of_consistent_fuel`
(`NestH60–62`): with `GenOK2` the stored value of every necessary top-level node is `den2`.  `closure_elab2` (`NestH69–70`): the closure run registers exactly the image.  `lc_gen2'`,
`stabilise_gen2'`, `step_gen2`, `stabilise_reads_den2'` (`NestH72–75`): `GenOK2` is kept by every step of a drain, by `stabilise`, by every API action; after a `stabilise` every in-use
observer reads `den2` of its node.  `QG2 := QI2 ∧ GenOK2`, `step_F2`, `history_F2`, `history_stabilise_F2` (`NestH75`).
TEXT-LEVEL REFERENCE SEMANTICS (`NestH113–117,120–123`): `Spec.denoteTop` (`Spec/Denote.lean`, the oracle of C01/C07: it looks only at the program text and the current variable values,
nested binds by `denoteTemplate`) AGREES with `den2`: `ProgOK p env s` (the top-level nodes of `s` are the images of the creation instructions of `p`), `agree_den2_denote`, `agree_large`
(both directions, for all large fuel; hypothesis `ZipPair env`: `env.fn fnZip [a, b] = .pair a b`, true for every `Defs.toEnv`), `progOK_history` (`ProgOK (progOf env po acts) env s` for
every state reached by a history of F2; `shadow_step_prog`: `progOf` is what `Spec.Shadow.step` builds), and `history_stabilise_denote`: at every `stabilise` of a history of F2 every
in-use observer reads `Spec.denoteTop (progOf … prefix) f j` of its handle `j`, for all large `f`.
NON-VACUITY (`NestH67`): `exHistN` — a history with a nested bind whose INNER lhs changes (second stabilise), whose OUTER lhs changes (third), and a fresh inner record (fourth).

## VALIDATION BY EXECUTION (before proving): Boolean versions of `DInv`, `OrderInv`, `StepRelB`, `StepL2`, `All2` (lexicographic scope-path rank), `GInv2` at rest, `GenOK2`,
reads = `den2` at every drain state of 300 generated nested histories (14318 steps, 3438 runs of change detectors, 6153 reads): 0 violations; model = real implementation on all.

## PROVED HERE: TOTAL CORRECTNESS (C04) for histories with binds — fragments F0 ⊂ F1 ⊂ F2 (`Proofs/NestH76–118`)

`history_never_panics`: a history of fragment F2 whose indices exist (`ValidIdx`: operands name handles created earlier, variables and observers exist) NEVER panics and never
runs out of fuel, PROVIDED the state it ends in — whatever the outcome; the monad keeps the state when a panic is raised — has room (`HasRoom N fuelDefault`): at most `N` nodes,
`N` = the height limit the state was initialised with, and `needFuel size = 4 * size + 8 ≤ fuelDefault`.  (The number of nodes a `stabilise` creates depends on the data — which
closure variants run — so it cannot be bounded from the program text; node counts only grow, so every intermediate state has room too.)
* THE RIGHT HEIGHT BOUND (`HBo2`, `NestH76`): `height n ≤ (position of n in the rank order of ALL nodes ever created) + 1`.  Heights strictly increase along child edges and from a change
  detector to the nodes of its scope (bind nodes add 2 levels per bind, scope nodes sit above the change detector), and both have increasing rank; heights of live nodes are NOT
  bounded by the live graph (a main node keeps the height an earlier, deeper generation gave it; the model never frees indices), so the safe limit is the number of nodes ever created.
* the two cascades: `becameNecessary_total2`, `addParentWithoutAdjustingHeights_total2` (the `bind-not-necessary` panic: a scope node becomes necessary only under a necessary main
  node), `checkIfUnnecessary_total2`, `becameUnnecessary_total2`, `removeChildren_total2` (fuel `2·pos+2` / `3·pos+3`) (`NestH77–81`);
* `adjustHeights_total2` (`NestH82–84`): no `cyclic` panic (every pair handled has increasing rank above `rk oc`), no `height-limit` (the bound is a loop invariant), TERMINATION: each node is
  popped AT MOST ONCE (nodes are popped in increasing order of their old height), so `fuel ≥ size + 1` suffices;
* `maybeChangeValue_total2`, `recomputeOne_static_total2` (static and `bindMain` nodes; needs `RhsRan`: a valid change detector that has run has installed a right-hand side) (`NestH86–87`);
* the phases of a run of a change detector: `lhsRunClosure_total2` (`elabTemplate` incl. `createBind`: node creation never fails), `lhsInvalidateOld_total2` (recursion depth of
  `invalidateNode` ≤ rank position) (`NestH89–90`), `lhsRelink_total2` (`changeChildBindRhs`/`stateAddParent`, fuel `3·size+3`) (`NestH91–92`), `lcStep_total2` (`NestH97–98`);
* `drain_total2` (`NestH100–101`): the drain on a GROWING graph: potential `unrun + (final size − size)` decreases with every `recomputeOne`;
* `addNewObservers_total2`, `unlinkDisallowedObservers_total2` (`NestH103`), `step_total2` (all other API actions, incl. top-level `bind`) (`NestH110–112`), `stabilise_total2`,
  `history_total2` (`NestH106–108`), `history_never_panics2`, example `exHistN_total` (`NestH118`).

## ASSUMED / NOT PROVED HERE
* Closures referring to YOUNGER top-level nodes (created after the bind, before the closure runs; in Rust only through a shared cell) are outside fragment F2.  For them the PURE
  theorems apply with the step contract as an explicit hypothesis (`LcStepsOK2 env Aux`: `drainHeap_valuesB2`, `drain_onceB2`); the Boolean versions of `DInv`, `OrderInv`, `StepRelB`,
  `StepL2` hold at every drain state of 200 generated histories with such references (until the history panics: `cyclic` when the younger node depends on the bind).  The ghost rank
  removes the index-order obstacle (a younger node can be ranked below an older change detector); an END-TO-END proof additionally needs a conditional operand condition
  (`top[k]? = some r → rk r < rk lc`), a bound on the handles a closure mentions, and rank INSERTION at top-level creation — NOT DONE.  Kernel-checked example (`NestH119`): `exY` — a closure over a variable created AFTER the
  bind: `DInv` holds where the change detector is about to run (rank: the younger variable BELOW the change detector), its run satisfies `StepL`, `stepL2_inv` gives `DInv` again.
  FINDING FN1 (/tmp/nested/FINDINGS.md): a bind whose closure returns the bind's OWN main
  node panics `cyclic` in the model but `RefCell already borrowed @ node.rs:1888` in the implementation.
* Outside the fragment: `map_ref`, `map_with_old`, expert nodes, user cutoffs, effects, handlers inside programs with binds; release mode (`cfg.debug = false`).
-/
namespace IncrVerif.Props.C03Nested
open IncrVerif.Engine IncrVerif.Driver IncrVerif.Proofs IncrVerif.Proofs.Sched IncrVerif.Proofs.Quiet IncrVerif.Proofs.BindH IncrVerif.Proofs.NestH

/-- **A run of a change detector keeps the drain invariant** (from its relational description `StepL2`: bind table may grow, inner generations die). -/
theorem stepL2_inv {env : Env} {n b : Nat} {br br' : BindRec} {r : Option Nat} {s s' : State}
    (I : DInv env s (some n)) (hk : (s.nodeD n).kind = .bindLhsChange b)
    (R : StepL2 env n b br br' r s s') : DInv env s' r :=
  NestH.stepL2_inv I hk R

/-- **The four phases.** -/
theorem closure_spec2 (env : Env) : ClosureSpec2 env := NestH.closure_spec2 env
theorem relink_spec2 (env : Env) : RelinkSpec2 env := NestH.relink_spec2 env
theorem inval_spec2 (env : Env) : InvalSpec2 env := NestH.inval_spec2 env

/-- **A run of a change detector, end to end**: from the drain invariant and `F2Inv` it satisfies `StepL2` and keeps `F2Inv` (for an extension of the ghost rank). -/
theorem recomputeOne_lc {env : Env} {fuel n b : Nat} {rk : Nat → Nat} {s s' : State} {r : Option Nat}
    (I : DInv env s (some n)) (A : F2Inv env rk s) (hk : (s.nodeD n).kind = .bindLhsChange b)
    (h : (recomputeOne env fuel n).run.run s = (.ok r, s')) :
    ∃ br br' rk', StepL2 env n b br br' r s s' ∧ F2Inv env rk' s' ∧ RkExt rk rk' s.nodes.size :=
  lcStepF2 env fuel n b rk s s' r I A hk h

/-- **The drain**, no hypothesis on the steps: every necessary node is valid, not stale, and reads its from-scratch value `evalB`. -/
theorem drainHeap_F2 {env : Env} {fuel : Nat} {s s' : State} (I : DInv env s none) (A : Aux2 env s)
    (h : (drainHeap env fuel).run.run s = (.ok (), s')) :
    DInv env s' none ∧ Aux2 env s' ∧ s'.rch.length = 0 ∧ s'.vars = s.vars ∧ s'.stabNum = s.stabNum ∧
    ∀ n, s'.isNecessary n = true → ∀ k, (s'.nodeD n).height.toNat < k →
      (s'.nodeD n).valid = true ∧ s'.isStale n = false ∧
        (s'.nodeD n).value = evalB env s' k n ∧ s'.value env n = evalB env s' k n ∧
        (evalB env s' k n).isSome = true :=
  drainHeap_F2' I A h

/-- **No node runs twice; no node of a dying generation — of any nesting depth — runs.** -/
theorem drain_once_F2 {env : Env} (fuel : Nat) (s s' : State) (I : DInv env s none) (A : Aux2 env s)
    (h : (drainHeap env fuel).run.run s = (.ok (), s')) :
    (drainTrace env fuel s).Nodup ∧ ∀ m, m ∈ drainTrace env fuel s → RanOnceB s s' m :=
  drain_once_F2' fuel s s' I A h

/-- **`stabilise`** from the invariant between actions, with arbitrary pending new/disallowed observers. -/
theorem stabilise_F2 {env : Env} {fuel : Nat} {s s' : State} (Q : QI2 env s)
    (h : (stabilise env fuel).run.run s = (.ok (), s')) : Stabilised2 env fuel s s' :=
  stabilise_F2' Q h

/-- **Every API action of fragment F2 keeps the invariant** (`QG2 = QI2 ∧ GenOK2`: invariant between actions and "generations are current"). -/
theorem step_F2 {env : Env} {s s' : State} {a : Action} {tokens : Array Nat} {r : String × Array Nat}
    (Q : QG2 env s) (ha : ActionF2 env s.top.size a)
    (h : (stepAction env a tokens).run.run s = (.ok r, s')) : QG2 env s' :=
  NestH.step_F2 Q ha h

/-- **Whole histories.** Every state reached from the initial state by a history of fragment F2 (that runs without panic) satisfies the invariant. -/
theorem history_F2 {env : Env} {N : Nat} {d : Bool} {acts : List Action} {s : State} {tk : Array Nat}
    (hH : HistF2 env 0 acts) (h : Quiet.runActions env acts (State.init N d) #[] = .ok (s, tk)) : QG2 env s :=
  NestH.history_F2 hH h

/-- **After a `stabilise` every in-use observer reads the specification-level from-scratch value `den2` of its node** (nested closures evaluated recursively; no node
created by a closure is looked at). -/
theorem stabilise_reads_den2 {env : Env} {fuel : Nat} {s s' : State} (Q : QI2 env s) (G : GenOK2 env s)
    (h : (stabilise env fuel).run.run s = (.ok (), s')) :
    ∀ (o : Nat) (ob : ObsRec), s'.observers[o]? = some ob → ob.state = .inUse →
      ∃ v, s'.tryGetValue env o = .ok v ∧ ∃ K, ∀ k, K ≤ k → den2 env s' k ob.node = some v :=
  stabilise_reads_den2' Q G h

/-- **Every `stabilise` of a history of fragment F2**: the state before it satisfies the invariant, the `stabilise` returns with all conclusions of `stabilise_F2`
(values = `evalB`, no node ran twice, no node of a dying generation of any depth ran), and every in-use observer reads `den2`. -/
theorem history_stabilise_F2 {env : Env} {N : Nat} {d : Bool} {as bs : List Action} {s : State} {tk : Array Nat}
    (hH : HistF2 env 0 (as ++ Action.stabilise :: bs))
    (h : Quiet.runActions env (as ++ Action.stabilise :: bs) (State.init N d) #[] = .ok (s, tk)) :
    ∃ s1 tk1 s2, Quiet.runActions env as (State.init N d) #[] = .ok (s1, tk1) ∧ QG2 env s1 ∧
      (stabilise env fuelDefault).run.run s1 = (.ok (), s2) ∧ Stabilised2 env fuelDefault s1 s2 ∧ QG2 env s2 ∧
      (∀ (o : Nat) (ob : ObsRec), s2.observers[o]? = some ob → ob.state = .inUse →
        ∃ v, s2.tryGetValue env o = .ok v ∧ ∃ K, ∀ k, K ≤ k → den2 env s2 k ob.node = some v) ∧
      Quiet.runActions env bs s2 tk1 = .ok (s, tk) :=
  NestH.history_stabilise_F2 hH h

/-- non-vacuity: the nested example is a history of the fragment, runs, and reads `9`, `7`, `1`, `7` -/
example : HistF2 nEnv 0 exHistN ∧
    (∃ s tk, Quiet.runActions nEnv exHistN (State.init 128 true) #[] = .ok (s, tk) ∧ QI2 nEnv s) ∧
    C2h.readB nEnv (exHistN.take 6) 0 = some (.int 9) ∧ C2h.readB nEnv (exHistN.take 8) 0 = some (.int 7) ∧
    C2h.readB nEnv (exHistN.take 10) 0 = some (.int 1) ∧ C2h.readB nEnv exHistN 0 = some (.int 7) := by
  obtain ⟨s, tk, h⟩ := exHistN_runs
  exact ⟨exHistN_frag, ⟨s, tk, h, history_q2' exHistN_frag h⟩, exHistN_reads⟩

/-- non-vacuity: … every state it reaches satisfies `QG2`; the reads agree with `den2` of the outer bind's main node (node 4); the second `stabilise` replaces the INNER
generation only, the third kills the OUTER generation including the inner bind's two nodes and the inner generation, the fourth creates a FRESH inner bind record -/
example : (∃ s tk, Quiet.runActions nEnv exHistN (State.init 128 true) #[] = .ok (s, tk) ∧ QG2 nEnv s) ∧
    NX.factN (exHistN.take 8) (fun s => den2 nEnv s 10 4) = some (some (.int 7)) ∧
    NX.factN (exHistN.take 8) (fun s => ((s.nodeD 8).valid, (s.nodeD 5).valid, (s.nodeD 6).valid, (s.nodeD 7).valid)) = some (false, true, true, true) ∧
    NX.factN (exHistN.take 10) (fun s => ((s.nodeD 5).valid, (s.nodeD 6).valid, (s.nodeD 7).valid, (s.nodeD 9).valid, (s.nodeD 10).valid)) =
      some (false, false, false, false, false) ∧
    NX.factN exHistN (fun s => s.binds.size) = some 3 :=
  ⟨exHistN_F2.2, exHistN_den.2.1, by decide +kernel, exHistN_outer_switch.2.1, exHistN_fresh_inner.1⟩

/-- **C04 for histories with (nested) binds.** A history of fragment F2 whose indices exist never panics and never runs out of fuel, provided the state it ends in (whatever the
outcome) has at most `N` nodes and `4 * size + 8 ≤ fuelDefault`; the final state satisfies the invariants. -/
theorem history_never_panics {env : Env} {N : Nat} {d : Bool} {acts : List Action}
    (hH : HistF2 env 0 acts) (hV : ValidIdx 0 0 0 acts)
    (hroom : HasRoom N fuelDefault (runS env acts (State.init N d) #[]).2) :
    ∃ s tk, Quiet.runActions env acts (State.init N d) #[] = .ok (s, tk) ∧ QT env N s ∧ QG2 env s :=
  history_never_panics2 hH hV hroom

/-- the pieces: a run of a change detector, the drain, `stabilise` return if the state they end in has room -/
theorem lcStep_total (env : Env) (N : Nat) : LcStepTotG stepFuel env N := lcStepTot env N
theorem drain_total (env : Env) (N : Nat) : DrainTot env N := drainTot env N
theorem stabilise_total (env : Env) (N : Nat) : StabTot env N := stabTot env N

/-- `adjustHeights` returns: no `cyclic`, no `height-limit`, each node popped at most once (`fuel ≥ size + 1`) -/
theorem adjustHeights_total {env : Env} {rk : Nat → Nat} {N oc op' fuel : Nat} {s : State} {op : Nat → Op} {ex : Nat → Prop} {dy : List Nat}
    (I : GInv2 env rk s op ex dy) (hb : HBo2 rk s op) (R : Room N s)
    (hopen : op op' = .linking (s.children op').length) (hclosed : ∀ m, m ≠ op' → op m = .closed)
    (hedge : ∃ i, (op', i) ∈ (s.nodeD oc).parents)
    (hother : ∀ c i, (op', i) ∈ (s.nodeD c).parents → c ≠ oc → (s.nodeD c).height < (s.nodeD op').height)
    (hgtop : (s.nodeD op').inRch = true → (s.nodeD op').heightInRch = (s.nodeD op').height)
    (hq : s.isStale op' = true → ex op' ∨ (s.nodeD op').inRch = true)
    (hah : AhhEmpty s)
    (hdy : ∀ m, m ∈ dy → ∀ b br, (s.nodeD m).createdIn = .bind b → s.binds[b]? = some br → rk br.lhsChange < rk op')
    (hscope : ∀ b br, (s.nodeD op').createdIn = .bind b → s.binds[b]? = some br → (s.nodeD br.lhsChange).height < (s.nodeD op').height)
    (hge : (s.nodeD op').height ≤ (s.nodeD oc).height) (h0 : 0 ≤ (s.nodeD op').height)
    (hf : s.nodes.size + 1 ≤ fuel) :
    Tot (adjustHeights oc op' fuel) s (fun _ s' =>
      GInv2 env rk s' (upd op op' .closed) ex dy ∧ AhhEmpty s' ∧ HRel s s' ∧
      (∀ m, rk m < rk op' → s'.nodeD m = s.nodeD m) ∧
      HBo2 rk s' (upd op op' .closed) ∧ Room N s') :=
  adjustHeights_total2 I hb R hopen hclosed hedge hother hgtop hq hah hdy hscope hge h0 hf

/-- non-vacuity: the hypotheses of `history_never_panics` hold for the nested example (17 nodes at the end) -/
example : ValidIdx 0 0 0 exHistN ∧ HasRoom 128 fuelDefault (runS nEnv exHistN (State.init 128 true) #[]).2 ∧
    ∃ s tk, Quiet.runActions nEnv exHistN (State.init 128 true) #[] = .ok (s, tk) ∧ QT nEnv 128 s ∧ QG2 nEnv s :=
  ⟨exHistN_idx, exHistN_room, exHistN_total⟩

/-- **reads = the TEXT-LEVEL reference semantics.** At every `stabilise` of a history of fragment F2 that runs from the initial state, every in-use observer reads
`Spec.denoteTop` of its handle in the program text of the prefix (for all large fuel). -/
theorem history_stabilise_denote {env : Env} {N : Nat} {d : Bool} {as bs : List Action} {s : State} {tk : Array Nat}
    (po : Nat → Bool) (Z : ZipPair env)
    (hH : HistF2 env 0 (as ++ Action.stabilise :: bs))
    (h : Quiet.runActions env (as ++ Action.stabilise :: bs) (State.init N d) #[] = .ok (s, tk)) :
    ∃ s1 tk1 s2, Quiet.runActions env as (State.init N d) #[] = .ok (s1, tk1) ∧
      (stabilise env fuelDefault).run.run s1 = (.ok (), s2) ∧ QG2 env s2 ∧
      ProgOK (progOf env po as) env s2 ∧
      (∀ (o : Nat) (ob : ObsRec), s2.observers[o]? = some ob → ob.state = .inUse →
        ∃ v j, s2.tryGetValue env o = .ok v ∧ s2.top[j]? = some ob.node ∧
          ∃ F, ∀ f, F ≤ f → IncrVerif.Spec.denoteTop (progOf env po as) f j = some v) ∧
      Quiet.runActions env bs s2 tk1 = .ok (s, tk) :=
  NestH.history_stabilise_denote po Z hH h

/-- closures referring to a YOUNGER top-level node: the pure theorems apply (kernel-checked on a reached state) -/
example : DInv yEnv exY (some 1) ∧ (∃ br br', StepL yEnv 1 0 br br' (some 2) exY exY') ∧ DInv yEnv exY' (some 2) ∧
    (exY.nodeD 3).createdIn = .top ∧ (exY.nodeD 4).kind = .map 0 [3] ∧ (exY'.binds[0]?.map (·.rhs)) = some (some 3) :=
  ⟨exY_dinv, exY_stepL, exY'_dinv, by decide +kernel, by decide +kernel, by decide +kernel⟩

end IncrVerif.Props.C03Nested
