import IncrVerif.Proofs.SymDiff
/-!
# C18 — symmetric diff and ordered merge visit exactly the differing keys once, in order

Property theorems only; helper lemmas live in `IncrVerif/Proofs/SymDiff.lean`.
The maps are strictly sorted association lists (`AMap.Sorted`), the model of `BTreeMap`,
`Rc<BTreeMap>` and `OrdMap`.  No bound on sizes.
-/
namespace IncrVerif.Props.C18
open IncrVerif IncrVerif.MapOps

variable {α : Type} [DecidableEq α]

/-- The state machine `SymmetricDiff` (MergeOnce over the keys + lookups), run to exhaustion
with the fuel the driver uses, is the textbook diff. -/
theorem symmetricDiff_eq_ref (a b : AMap α) (ha : a.Sorted) (hb : b.Sorted) :
    symmetricDiff a b = refDiff a b := Proofs.symmetricDiff_eq_ref a b ha hb

/-- Exactly the differing keys, with the right tag and values. -/
theorem symmetricDiff_mem (a b : AMap α) (ha : a.Sorted) (hb : b.Sorted)
    (k : Int) (e : DiffElement α) :
    (k, e) ∈ symmetricDiff a b ↔
      ((∃ x, a.lookup k = some x ∧ b.lookup k = none ∧ e = .left x) ∨
       (∃ y, a.lookup k = none ∧ b.lookup k = some y ∧ e = .right y) ∨
       (∃ x y, a.lookup k = some x ∧ b.lookup k = some y ∧ x ≠ y ∧ e = .unequal x y)) :=
  Proofs.symmetricDiff_mem a b ha hb k e

/-- Ascending key order; in particular every key is visited at most once. -/
theorem symmetricDiff_ascending (a b : AMap α) (ha : a.Sorted) (hb : b.Sorted) :
    List.Pairwise (· < ·) ((symmetricDiff a b).map (·.1)) :=
  Proofs.symmetricDiff_ascending a b ha hb

/-- Nothing is visited iff the maps are equal. -/
theorem symmetricDiff_nil_iff (a b : AMap α) (ha : a.Sorted) (hb : b.Sorted) :
    symmetricDiff a b = [] ↔ a = b := Proofs.symmetricDiff_nil_iff a b ha hb

/-- The owning iterator yields the same stream. -/
theorem symmetricDiffOwned_eq (a b : AMap α) (ha : a.Sorted) (hb : b.Sorted) :
    symmetricDiffOwned a b = (symmetricDiff a b).map toOwned :=
  Proofs.symmetricDiffOwned_eq a b ha hb

/-- `MergeOnceWith` on two key-ascending streams is the textbook two-way merge. -/
theorem mergeDiffs_eq_ref {β γ : Type} (l : List (Int × β)) (r : List (Int × γ)) :
    mergeDiffs l r = refMerge l r := Proofs.mergeDiffs_eq_ref l r

/-- The merged stream is globally ascending (no key twice), -/
theorem mergeDiffs_ascending {β γ : Type} (l : List (Int × β)) (r : List (Int × γ))
    (hl : List.Pairwise (· < ·) (l.map (·.1))) (hr : List.Pairwise (· < ·) (r.map (·.1))) :
    List.Pairwise (· < ·) ((mergeDiffs l r).map MergeElement.key) :=
  Proofs.mergeDiffs_ascending l r hl hr

/-- and every element of either stream occurs in it exactly as the spec says:
alone iff the other stream has no entry for its key, paired otherwise. -/
theorem mergeDiffs_mem {β γ : Type} (l : List (Int × β)) (r : List (Int × γ))
    (hl : List.Pairwise (· < ·) (l.map (·.1))) (hr : List.Pairwise (· < ·) (r.map (·.1)))
    (e : MergeElement (Int × β) (Int × γ)) :
    e ∈ mergeDiffs l r ↔
      ((∃ x, e = .left x ∧ x ∈ l ∧ ∀ y ∈ r, y.1 ≠ x.1) ∨
       (∃ y, e = .right y ∧ y ∈ r ∧ ∀ x ∈ l, x.1 ≠ y.1) ∨
       (∃ x y, e = .both x y ∧ x ∈ l ∧ y ∈ r ∧ x.1 = y.1)) :=
  Proofs.mergeDiffs_mem l r hl hr e

/-- The `OrdMap` adapter maps the library's diff items to the same three tags. -/
theorem fromDiffItem_spec (k : Int) (x y : α) :
    fromDiffItem (.add k y) = (k, DiffElement.right y) ∧
    fromDiffItem (.remove k x) = (k, DiffElement.left x) ∧
    fromDiffItem (.update k x k y) = (k, DiffElement.unequal x y) := ⟨rfl, rfl, rfl⟩

/-! Non-vacuity: a concrete pair of sorted maps meeting the hypotheses, with a non-trivial diff. -/
example : (AMap.Sorted [(1, 10), (2, 20), (4, 40)] ∧ AMap.Sorted [(2, 21), (3, 30), (4, 40)]) ∧
    symmetricDiff [(1, 10), (2, 20), (4, 40)] [(2, 21), (3, 30), (4, 40)]
      = [(1, .left 10), (2, .unequal 20 21), (3, .right 30)] := by decide

end IncrVerif.Props.C18
