import IncrVerif.Proofs.LeakF6
import IncrVerif.Proofs.LeakF7
import IncrVerif.Proofs.FullH63
import IncrVerif.Props.C12
/-!
# C12 (nothing leaks) for the COMBINED fragment — PARTIAL: node handles and observers

C12, informally: "After all user handles to a subgraph (Incr, Var, Observer handles and closures holding them) are
dropped and one stabilise has run, every node of that subgraph has been released.  Handles may be dropped in any
order."  `Props/C12History.lean` proves it for histories of the STATIC fragment.

FULL STATEMENT AIMED AT (NOT proved here in full): for `acts` with `FullH.HistFull env sp 0 acts` (the combined
fragment of `Props/C01Full.lean`: binds incl. nested, `map_ref`, `map_with_old`, `depend_on`, cutoffs `eq`/`never`,
static core; `EnvS env sp`, `FirstFn env`), `drops` any list of `LeakH.DropAction`s (`dropVar`, `dropHandle`,
`dropObs`, `disallow`), if `runActions env (acts ++ drops) (State.init N d) #[] = .ok (s, tk)`, `LeakH.HoldsNothing s`
and `(stabilise env fuel).run.run s = (.ok (), s')`, then `s'.roots = []` and `s'.aliveSet = []`.

PROVED HERE (`…_partial`; partial correctness: the calls are assumed to return `.ok`; both `cfg.debug` settings, any
height limit, any fuel):
* `all_dropped_then_stabilise_partial`: the statement for `drops` WITHOUT `dropVar` (`LeakF.HDrop`: `dropHandle`,
  `dropObs`, `disallow`, any order, repetitions allowed) and with the hypotheses "no node handle is held"
  (`s.handles = []`) and "every observer has been dropped" (all `clones = 0`) instead of `HoldsNothing`: after the
  `stabilise`, `s'.handles = []`, every observer record is `unlinked` with `clones = 0`, the recompute heap is
  empty, the variable cells are unchanged, and hence
  `s'.roots = s'.slots.map (·.2) ++ LeakF.varRoots s` — THE ENGINE ITSELF ROOTS NOTHING: the only roots left are the
  shared cells and the watch nodes of the variables (held or still linked).  In particular no bind main node, change
  detector or right-hand-side node is a root (they are referenced through `refsOf` only, so the
  bind main ↔ change detector ↔ rhs references keep nothing alive on their own: liveness is reachability from the roots).
* `only_variables_alive_partial`: if moreover no shared cell is filled afterwards (`s'.slots = []`), EVERY NODE THAT IS
  STILL ALIVE IS THE WATCH NODE OF A VARIABLE (`n ∈ s'.aliveSet → ∃ c vc, s'.vars[c]? = some vc ∧ vc.node = n ∧ kind = var c`):
  every other node — constants, maps, folds, map_ref / map_with_old nodes, bind main nodes, change detectors, all
  generations of right-hand sides — has been released by that one `stabilise` (`Proofs/LeakF7`).
* `no_variables_frees_everything_partial`: if moreover the program has no variable (`s.vars = #[]`) and no shared
  cell is filled afterwards (`s'.slots = []`), then `s'.roots = []` and `s'.aliveSet = []`.
* the ingredients, each of independent use:
  - `stabilise_keeps_handles` — FOR ALL PROGRAMS (no fragment hypothesis): a `stabilise` that returns leaves the
    program's node handles unchanged (`Proofs/LeakF1…4`: a frame ladder through every function of
    `Engine/{Core,Expert,Recompute}`, port of the `NecRel` ladder);
  - `invariant_ignores_handles` — `QInvFE env sp s → QInvFE env sp { s with handles := H }`: the invariant of the
    combined fragment does not read the program's node handles (`Proofs/LeakF5`: clause by clause, definitionally,
    by the tactic `xfer`; the recursive clauses `BodyOK2`, `ElabOf2`, `KInv` by lemmas);
  - `drop_phase_keeps` — `dropHandle`, `dropObs`, `disallow` keep `QInvFE`; `history_then_drops`;
  - `engine_roots_state` — the state-level form: `QInvFE s`, `ObsDead s`, `handles = []`, all `clones = 0`.
* Non-vacuity (kernel-checked): `exHistF` of `C01Full` (a bind whose closure builds a map_ref chain, a
  `map_with_old` machine, a map and a NESTED bind; writes, lhs changes, disallow, re-observation), then `exDropsF`
  (both observers and all four node handles, mixed order): the hypotheses hold; before the drops 14 nodes are alive,
  after the drops still 14 (observer 1 is not yet unlinked), after the `stabilise` exactly the three variable nodes
  `[2, 1, 0]` (`exF_eval`), and the theorem yields `roots = varRoots` for it (`example`).  BY EVALUATION ONLY (not
  covered by a theorem here): with the three `dropVar`s added before the final `stabilise`, or after it followed by a
  second `stabilise`, `roots = []` and `aliveSet = []` (`exF_eval_vars`) — no leak on this history.

ASSUMED.  Nothing beyond the hypotheses.  `roots`/`refsOf` are the ownership abstraction of `Engine/Alive.lean`.

NOT PROVED (what is missing for the full statement).
* `dropVar` among the drops.  It decrements `vars[v].handles` and queues `v` in `deadVars`; `QInvFE` contains
  `deadVars = []` and its clauses read `vars` (through `node`, `value`, `setAt` only, but not definitionally so), and
  the final `stabilise` then runs from a state that no history of the fragment reaches.  Needed: (a) `QInvFE` is
  insensitive to `VarCell.handles` (the analogue of `LeakH.qinv_strip`), (b) `stabilise`'s prefix and drain do not
  read `deadVars`/`VarCell.handles` (a two-state simulation of the kind of `C05Release`; NOTE that such a simulation
  is FALSE for `handles` for arbitrary programs: `memoCall`, `perKeyDriver` and the weak-map sweep at the end of
  `stabiliseEnd` read `State.isAlive`/`aliveSet`, i.e. the roots), (c) `LeakH.stabiliseEnd_dead` for the `Var ↔ watch`
  cycle.
* `s'.slots = s.slots` across `stabilise` for the fragment (only the `publish` instruction, which is outside the
  fragment, writes `slots`; a frame ladder conditional on `EnvS` is needed), whence `slots` stays in the conclusion.
* drop-order independence and total correctness for the combined fragment.
No ingredient was found to be false: no leak found.
-/
namespace IncrVerif.Props.C12Full
open IncrVerif.Engine IncrVerif.Driver IncrVerif.Proofs IncrVerif.Proofs.FullH IncrVerif.Proofs.LeakH
open IncrVerif.Proofs.LeakF

/-- **for all programs**: a `stabilise` that returns leaves the program's node handles unchanged -/
theorem stabilise_keeps_handles {env : Env} {fuel : Nat} {s s' : State}
    (h : (stabilise env fuel).run.run s = (.ok (), s')) : s'.handles = s.handles :=
  stabilise_handles h

/-- the invariant of the combined fragment does not read the program's node handles -/
theorem invariant_ignores_handles {env : Env} {sp : Nat → Val → Val} {s : State} (H : List Nat)
    (Q : QInvFE env sp s) : QInvFE env sp { s with handles := H } :=
  qinvFE_erase (H := H) Q

/-- `dropHandle`, `dropObs`, `disallow` keep the invariant -/
theorem drop_phase_keeps {env : Env} {sp : Nat → Val → Val} (E : EnvS env sp) (hF : FirstFn env) {s s' : State}
    {a : Action} {tk : Array Nat} {r : String × Array Nat} (Q : QInvFE env sp s) (ha : HDrop a)
    (h : (stepAction env a tk).run.run s = (.ok r, s')) : QInvFE env sp s' :=
  hdrop_step E hF Q ha h

/-- a history of the combined fragment, then such drops: the invariant, and `ObsDead` -/
theorem history_then_drops {env : Env} {sp : Nat → Val → Val} (E : EnvS env sp) (hF : FirstFn env) {N : Nat}
    {d : Bool} {acts drops : List Action} {s : State} {tk : Array Nat} (hH : HistFull env sp 0 acts)
    (hd : ∀ a, a ∈ drops → HDrop a)
    (h : Quiet.runActions env (acts ++ drops) (State.init N d) #[] = .ok (s, tk)) :
    QInvFE env sp s ∧ ObsDead s :=
  history_hdrops E hF hH hd h

/-- **state level** -/
theorem engine_roots_state {env : Env} {sp : Nat → Val → Val} (E : EnvS env sp) (hF : FirstFn env) {fuel : Nat}
    {s s' : State} (Q : QInvFE env sp s) (OD : ObsDead s) (hh : s.handles = [])
    (hc : ∀ (o : Nat) (ob : ObsRec), s.observers[o]? = some ob → ob.clones = 0)
    (h : (stabilise env fuel).run.run s = (.ok (), s')) :
    s'.handles = [] ∧ s'.vars = s.vars ∧ s'.rch.queues.toList.flatten = [] ∧
      (∀ (o : Nat) (ob : ObsRec), s'.observers[o]? = some ob → ob.clones = 0 ∧ ob.state = .unlinked) ∧
      s'.roots = s'.slots.map (·.2) ++ varRoots s :=
  engine_roots E hF Q OD hh hc h

/-- **C12 for the combined fragment, node handles and observers.** -/
theorem all_dropped_then_stabilise_partial {env : Env} {sp : Nat → Val → Val} (E : EnvS env sp) (hF : FirstFn env)
    {N : Nat} {d : Bool} {fuel : Nat} {acts drops : List Action} {s s' : State} {tk : Array Nat}
    (hH : HistFull env sp 0 acts) (hd : ∀ a, a ∈ drops → HDrop a)
    (hrun : Quiet.runActions env (acts ++ drops) (State.init N d) #[] = .ok (s, tk))
    (hh : s.handles = []) (hc : ∀ (o : Nat) (ob : ObsRec), s.observers[o]? = some ob → ob.clones = 0)
    (h : (stabilise env fuel).run.run s = (.ok (), s')) :
    s'.handles = [] ∧ s'.vars = s.vars ∧ s'.rch.queues.toList.flatten = [] ∧
      (∀ (o : Nat) (ob : ObsRec), s'.observers[o]? = some ob → ob.clones = 0 ∧ ob.state = .unlinked) ∧
      s'.roots = s'.slots.map (·.2) ++ varRoots s :=
  let I := history_hdrops E hF hH hd hrun
  engine_roots E hF I.1 I.2 hh hc h

/-- **… every node still alive is the watch node of a variable** (no shared cells) -/
theorem only_variables_alive_partial {env : Env} {sp : Nat → Val → Val} (E : EnvS env sp) (hF : FirstFn env)
    {N : Nat} {d : Bool} {fuel : Nat} {acts drops : List Action} {s s' : State} {tk : Array Nat}
    (hH : HistFull env sp 0 acts) (hd : ∀ a, a ∈ drops → HDrop a)
    (hrun : Quiet.runActions env (acts ++ drops) (State.init N d) #[] = .ok (s, tk))
    (hh : s.handles = []) (hc : ∀ (o : Nat) (ob : ObsRec), s.observers[o]? = some ob → ob.clones = 0)
    (h : (stabilise env fuel).run.run s = (.ok (), s')) (hs : s'.slots = []) :
    ∀ n, n ∈ s'.aliveSet → ∃ c vc, s'.vars[c]? = some vc ∧ vc.node = n ∧ (s'.nodeD n).kind = .var c :=
  let I := history_hdrops E hF hH hd hrun
  only_vars_alive E hF I.1 I.2 hh hc h hs

/-- … a program without variables and shared cells: nothing is alive -/
theorem no_variables_frees_everything_partial {env : Env} {sp : Nat → Val → Val} (E : EnvS env sp)
    (hF : FirstFn env) {N : Nat} {d : Bool} {fuel : Nat} {acts drops : List Action} {s s' : State} {tk : Array Nat}
    (hH : HistFull env sp 0 acts) (hd : ∀ a, a ∈ drops → HDrop a)
    (hrun : Quiet.runActions env (acts ++ drops) (State.init N d) #[] = .ok (s, tk))
    (hh : s.handles = []) (hc : ∀ (o : Nat) (ob : ObsRec), s.observers[o]? = some ob → ob.clones = 0)
    (hv : s.vars = #[]) (h : (stabilise env fuel).run.run s = (.ok (), s')) (hs : s'.slots = []) :
    s'.roots = [] ∧ s'.aliveSet = [] := by
  have hr : s'.roots = [] := by
    rw [(all_dropped_then_stabilise_partial E hF hH hd hrun hh hc h).2.2.2.2, hs, varRoots, hv]
    rfl
  exact ⟨hr, C12.no_roots_nothing_alive s' hr⟩

/-! ## non-vacuity -/

/-- both observers and the four node handles of `exHistF`, in a mixed order -/
def exDropsF : List Action :=
  [.dropObs 1, .dropHandle (.outer 3), .dropObs 0, .dropHandle (.outer 0), .dropHandle (.outer 2),
   .dropHandle (.outer 1)]

theorem exDropsF_hdrop : ∀ a, a ∈ exDropsF → HDrop a := by
  intro a ha
  simp only [exDropsF, List.mem_cons, List.mem_nil_iff, or_false] at ha
  rcases ha with rfl | rfl | rfl | rfl | rfl | rfl <;> trivial

/-- roots and alive set after a history (`none`: it panicked) -/
def rootsAfter (env : Env) (acts : List Action) : Option (List Nat × List Nat) :=
  match Quiet.runActions env acts (State.init 128 true) #[] with
  | .ok (s, _) => some (s.roots, s.aliveSet)
  | .error _ => none

/-- no node handle, every observer dropped? -/
def droppedAfter (env : Env) (acts : List Action) : Bool :=
  match Quiet.runActions env acts (State.init 128 true) #[] with
  | .ok (s, _) => s.handles.isEmpty && s.observers.toList.all (fun ob => ob.clones == 0)
  | .error _ => false

set_option maxRecDepth 100000 in
theorem exF_eval :
    (rootsAfter fEnv exHistF).map (fun p => p.2.length) = some 14 ∧
    droppedAfter fEnv (exHistF ++ exDropsF) = true ∧
    (rootsAfter fEnv (exHistF ++ exDropsF)).map (fun p => p.2.length) = some 14 ∧
    rootsAfter fEnv ((exHistF ++ exDropsF) ++ [.stabilise]) = some ([0, 1, 2], [2, 1, 0]) :=
  ⟨by decide +kernel, by decide +kernel, by decide +kernel, by decide +kernel⟩

set_option maxRecDepth 100000 in
/-- by evaluation only: with the variables dropped as well nothing is alive -/
theorem exF_eval_vars :
    rootsAfter fEnv ((exHistF ++ exDropsF ++ [.dropVar 0, .dropVar 1, .dropVar 2]) ++ [.stabilise]) = some ([], []) ∧
    rootsAfter fEnv ((exHistF ++ exDropsF ++ [.stabilise, .dropVar 0, .dropVar 1, .dropVar 2]) ++ [.stabilise])
      = some ([], []) :=
  ⟨by decide +kernel, by decide +kernel⟩

/-- the hypotheses of `all_dropped_then_stabilise_partial` hold for `exHistF ++ exDropsF` -/
example {fuel : Nat} : EnvS fEnv fSp ∧ FirstFn fEnv ∧ HistFull fEnv fSp 0 exHistF ∧
    ∃ s tk, Quiet.runActions fEnv (exHistF ++ exDropsF) (State.init 128 true) #[] = .ok (s, tk) ∧
      s.handles = [] ∧ (∀ (o : Nat) (ob : ObsRec), s.observers[o]? = some ob → ob.clones = 0) ∧
      ∀ s', (stabilise fEnv fuel).run.run s = (.ok (), s') →
        s'.roots = s'.slots.map (·.2) ++ varRoots s := by
  refine ⟨fEnv_envS, fEnv_first, exHistF_frag, ?_⟩
  have hd := exF_eval.2.1
  unfold droppedAfter at hd
  rcases hx : Quiet.runActions fEnv (exHistF ++ exDropsF) (State.init 128 true) #[] with e | ⟨s, tk⟩
  · rw [hx] at hd; cases hd
  · rw [hx] at hd
    simp only [Bool.and_eq_true, List.isEmpty_iff, List.all_eq_true, beq_iff_eq] at hd
    have hc : ∀ (o : Nat) (ob : ObsRec), s.observers[o]? = some ob → ob.clones = 0 :=
      fun o ob ho => hd.2 ob (LeakH.getElem?_mem_toList ho)
    exact ⟨s, tk, rfl, hd.1, hc, fun s' hs =>
      (all_dropped_then_stabilise_partial fEnv_envS fEnv_first exHistF_frag exDropsF_hdrop hx hd.1 hc hs).2.2.2.2⟩

end IncrVerif.Props.C12Full
