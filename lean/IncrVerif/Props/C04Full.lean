import IncrVerif.Proofs.FullT32
import IncrVerif.Proofs.FullT33
import IncrVerif.Proofs.FullT34
import IncrVerif.Proofs.FullH61
/-!
# C04 for the COMBINED fragment of `C01Full`: a valid history never panics and never runs out of fuel (both `cfg.debug` settings)

Property C04: *as long as the documented rules are respected (no nested stabilise, no dependency cycle, graph height within the configured maximum, nodes from one state only, no
observers owned by node closures, …), no public call panics: stabilise, observe, set/modify, node constructors and dropping handles in any order all return normally — with
debug assertions enabled and disabled.*

`C03Nested.history_never_panics` proves this for nested binds over static nodes (fragment F2), `C17History` for static + `map_ref` and static + `map_with_old` separately.
This file proves it for THE COMBINED FRAGMENT of `Props/C01Full.lean` (one fragment: const / var / pure map 1–6 / zip / fold / `map_ref` chains / `map_with_old` with a `Good` machine /
`depend_on` / binds incl. nested binds whose closures build all of these / the `cutoff n eq|never` action / observer churn / the five variable writes), so that the partial-correctness theorem
`C01Full.history_stabilise_denote` ("every in-use observer reads `Spec.denoteTop` of the program text after every stabilise") becomes a TOTAL-correctness theorem: `history_total_denote`.

## THE STATEMENT (`history_never_panics`)

For an environment all of whose closure bodies are of the fragment (`FullH.EnvS env sp`, machines `Good`; `FullH.FirstFn env`), a history `acts` of the fragment (`FullH.HistFull env sp 0 acts`)
* whose indices exist (`FullT.ValidIdxF 0 0 0 acts`, decidable from the text of the history: every operand `n<k>` names a handle created earlier — also the operands of `mapRef`, `mapWithOld`, `dependOn`
  and of the `cutoff` action —, every observer / variable index exists), and
* which ends — WHATEVER THE OUTCOME; the monad keeps the state when a panic is raised: `NestH.runS` — in a state with ROOM (`NestH.HasRoomG FullT.needFuelF N fuelDefault`): at most `N` nodes,
  `N` = the height limit (`maxHeight`) the state was initialised with, and `5 * nodes + 8 ≤ fuelDefault` (= 100000; the model's recursion fuel — the real implementation has no fuel),
run from `State.init N d` for EITHER value of `d = cfg.debug`, returns: `Quiet.runActions env acts (State.init N d) #[] = .ok (s, tk)`, and the final state satisfies the invariant `QInvFE` of
`C01Full` (so every theorem of `C01Full` applies to it without its "the run returned" hypothesis).  As in `C03Nested`, the number of nodes a `stabilise` creates depends on the data
(which closure variants run), so room cannot be bounded from the text of the history; node counts only grow, so every intermediate state has room too.

## METHOD (`Proofs/FullT1…34`, ≈ 5.2 kLoC; 10 helpers)

TRANSFER OF THE TOTALITY OF THE BIND FRAGMENT THROUGH THE VIRTUAL-STATE SIMULATION, BY A CONVERSE SIMULATION.  `C01Full` runs the nested-bind development `NestH` on the virtual state `virt g s`
through FORWARD simulations `FullH.Sim`/`SimX` (actual run ok ⇒ virtual run ok).  Here: `FullT.BSimAt K P g s x x'` (`FullT1`) = the forward simulation ∧ (KEEP: a successful run of `x` keeps
the carried invariant `P`) ∧ (CONVERSE: if the VIRTUAL run of `x'` from `virt g s` returns then the ACTUAL run of `x` from `s` returns); `BSimXAt` the same when the ghost may be erased.
The calculus (`ret/seq/get_seq/getNode_seq/mod/cond/forIn/modNode/dassert/assertM/…`) has the combinators of `FullH2`, so the tactic-driven ladder of `C01Full` was re-run (`bsim` for `fsim`):
heaps and heights (`FullT2`, `FullT7`), the unlinking cascade and `adjust_heights` (`FullT7`), node creation incl. `elabTemplate`/`createBind` (`FullT10–11`), invalidation, `state_add_parent`,
`change_child_bind_rhs`, the relink / invalidate phases of a change detector (`FullT12–13`), observer and variable operations, `unlink_disallowed_observers`, `add_new_observers`, every API action
(`FullT14–15`), the recompute step of static / `bindMain` nodes and the run of a change detector phase by phase (`FullT27–29`).
WHAT EXISTS ONLY IN THE ACTUAL ENGINE is proved to return by hand, from the carried invariant `FullT.PInv` (`FullT3`: inputs of `map_ref` nodes are earlier nodes; a RECORDED parent entry `(p, i)` of `c`
names a node of the state which, if it is a `map_ref` node, has `c` as its input):
* `markMapRefUnknown` (repaired D1/D15: up the recorded parents while they are valid `map_ref` nodes; `size + 1 ≤ fuel + n`: along the chain the index strictly increases, the last hop to a
  non-`map_ref` parent costs one more unit) inside the LINKING CASCADE (`FullT5–6`: `becameNecessary`/`addParentWithoutAdjustingHeights` return with fuel `size + 2·UN + 2`, `UN` = the number of
  unnecessary nodes: the cascade descends only into nodes that were unnecessary; in graphs with binds a child may have a larger index than its parent, so the index bound of `C17History` is not available);
* `child_changed` through CHAINS of `map_ref` parents (`FullT8–9`: the projection is recomputed — the child READS a value —, the flag raised, the recorded parents notified; needs also `MRPV`:
  the recorded parents of a valid `map_ref` node are valid — else `ParentInvalidated` —, which follows from `BGraph` of the virtual state; `size ≤ fuel`);
* THE THREE STEPS THAT ARE NOT SIMULATED: the own step of a `map_ref` node (`FullT17`), of a `map_with_old` node (`FullT20`), and the verdict step of a node whose actual cutoff is `.never` / `.dependOn a`
  (`FullT18–19`; a `.never` node may fire where the virtual `.eq` node does not): each is reduced, by the converse of the notification walk `maybe_change_value_manual … true` (resp. the walk without
  `child_changed` for a `map_ref` node), to "the propagating walk of the VIRTUAL engine does not panic from an `Upd n`-state of a state with the drain invariant" = `NestH.T2b.mcvm_noerr`
  (`parent-needs-to-be-computed`, `not-in-rch`, `height ≤ max`, …: all the `dassert`s of the walk), and the totality invariant `NestH.DT` (`F2Inv`, the height bound `HBo2`, `RhsRan`, bucket counts)
  of the new virtual state follows from the step relation `StepRelB` + frames (`FullT16.dt_vstep`).
THE ASSEMBLY mirrors `NestH100–108`: one step of the drain (`FullT25–26`: five cases), the drain on a growing graph with the potential `unrun (virt g s) + (final size − size)` (`FullT21`),
`stabilise` (`FullT23`: status assertion, the two observer loops, the drain, `stabiliseEnd`; woven into `FullH.stabilise_full`), the other API actions (`FullT15.step_totalF`: the virtual action returns by
`NestH.step_totIf2`, the `cutoff` action — a virtual no-op — by hand), whole histories (`FullT24`, `FullT30–32`).  Invariant between actions: `FullT.QF env sp N s g` = `FullH.QInvF` (C01Full) ∧ `PInv s` ∧ `NestH.QT`
(the totality invariant of `C03Nested`) of the VIRTUAL state.
BOTH `cfg.debug` SETTINGS: every `dassert` of the model is either simulated (`BSim.dassert`: it holds in the actual run iff it holds in the virtual run, where `NestH` proves it) or part of the by-hand
arguments above; the initial state is `State.init N d` for arbitrary `d`.

## PROVED HERE (for the model)
`history_never_panics` (+ `history_never_panics_inv` with the full invariant), `stabilise_returns`, `action_returns`, `step_returns` (one `recomputeOne` of the drain), `drain_returns`,
`history_total_denote` (C01 ∧ C04: the history runs AND at every `stabilise` every in-use observer reads `Spec.denoteTop` of the program text), NON-VACUITY: the two example histories of `C01Full`
(`exHistF`: a bind whose closure builds a map_ref chain, a machine, a map and a nested bind with its own map_ref + machine, lhs changes, disallow / re-observe; `exHistG`: `depend_on`, the `cutoff … never`
action) satisfy the hypotheses (indices by `decide`, room by kernel evaluation of the final NODE COUNT only) for both debug settings — that they run is then a consequence of the theorem.

## ASSUMED / NOT PROVED HERE
* The room proviso is about the state the run ends in (as in `C03Nested`), not a static bound; `fuelDefault` is the model's recursion fuel.
* Same fragment limits as `C01Full`: no user cutoffs (`.fn`, `.boxed`, `.always`), no `cutoff` instruction inside closures, no expert nodes / effects / subscriptions / `var` in closures / closures over
  younger top-level nodes / `setMaxHeight` / `dropVar` / memoised calls; `EnvS` is a condition on all closure bodies of the environment.
* No finding: no valid history of the fragment panics (consistent with the 2300 executed histories of `C01Full`'s hunt).  Two off-by-one fuel bounds were found IN THE PROOF PLAN (not in the engine):
  `markMapRefUnknown` / `child_changed` need `size + 1 ≤ fuel + n`, not `size ≤ fuel + n` as in `C17History` (there every recorded parent is younger; with binds a main node may be an OLDER parent).
-/
namespace IncrVerif.Props.C04Full
open IncrVerif.Engine IncrVerif.Driver IncrVerif.Proofs IncrVerif.Proofs.FullH IncrVerif.Proofs.FullT
open IncrVerif.Proofs.NestH (runS HasRoomG TotIf ResOK progOf ZipPair)

/-- **C04 for the combined fragment.**  A history of the full fragment whose indices exist never panics and never runs out of fuel, for both `cfg.debug` settings, provided the state it ends in
(whatever the outcome) has at most `N` nodes (`N` = the height limit) and `5 * nodes + 8 ≤ fuelDefault`; the final state satisfies the invariant of `C01Full`. -/
theorem history_never_panics {env : Env} {sp : Nat → Val → Val} (E : EnvS env sp) (hF : FirstFn env) {N : Nat} {d : Bool} {acts : List Action}
    (hH : HistFull env sp 0 acts) (hV : ValidIdxF 0 0 0 acts)
    (hroom : HasRoomG needFuelF N fuelDefault (runS env acts (State.init N d) #[]).2) :
    ∃ s tk, Quiet.runActions env acts (State.init N d) #[] = .ok (s, tk) ∧ QInvFE env sp s := by
  obtain ⟨s, tk, g, h, Q⟩ := FullT.history_never_panicsF E hF hH hV hroom
  exact ⟨s, tk, h, g, Q.q⟩

/-- the same with the full invariant `QF` (C01Full's `QInvF`, the carried invariant `PInv`, the totality invariant `NestH.QT` of the virtual state) -/
theorem history_never_panics_inv {env : Env} {sp : Nat → Val → Val} (E : EnvS env sp) (hF : FirstFn env) {N : Nat} {d : Bool} {acts : List Action}
    (hH : HistFull env sp 0 acts) (hV : ValidIdxF 0 0 0 acts)
    (hroom : HasRoomG needFuelF N fuelDefault (runS env acts (State.init N d) #[]).2) :
    ∃ s tk g, Quiet.runActions env acts (State.init N d) #[] = .ok (s, tk) ∧ QF env sp N s g :=
  FullT.history_never_panicsF E hF hH hV hroom

/-- **`stabilise` returns** from the invariant between API actions (pending new / disallowed observers allowed) if the state it ends in — whatever the outcome — has room; the invariant holds again,
and all of `C01Full.stabilise_full` (`StabF`: observers read `den2` of the virtual state, no necessary node is stale). -/
theorem stabilise_returns {env : Env} {sp : Nat → Val → Val} (E : EnvS env sp) (hF : FirstFn env) {N fuel : Nat} {s : State} {g : Nat → Option Val}
    (Q : QF env sp N s g) : TotIf (stabilise env fuel) s (HasRoomG needFuelF N fuel) (fun _ s' => ∃ g', QF env sp N s' g' ∧ StabF env sp s s' g') :=
  FullT.stabTotC' E hF fuel s g Q

/-- **every other API action of the fragment whose indices exist returns** if the state it ends in has at most `N` nodes (incl. the `cutoff` action and all node constructors). -/
theorem action_returns {env : Env} {sp : Nat → Val → Val} {N : Nat} {s : State} {g : Nat → Option Val} {a : Action} {tk : Array Nat}
    (Q : QF env sp N s g) (hA : ActionFull env sp s.top.size a) (hidx : ActionIdxF s.top.size s.vars.size s.observers.size a) (hs : a ≠ .stabilise) :
    TotIf (stepAction env a tk) s (ResOK N) (fun r s' => r.2 = tk ∧ QF env sp N s' g ∧
      s'.top.size = s.top.size + NestH.growTop (virtA a) ∧ s'.vars.size = s.vars.size + (NestH.grow2 (virtA a)).2.1 ∧
      s'.observers.size = s.observers.size + (NestH.grow2 (virtA a)).2.2) :=
  FullT.actTotC env sp N s g a tk Q hA hidx hs

/-- **one `recomputeOne` of the drain returns** (five cases: simulated static / `bindMain` step, run of a change detector, map_ref step, map_with_old step, verdict step) if the state it ends in has
room (`3 * nodes + 7 ≤ fuel`); the drain invariant, `PInv` and `NestH.DT` of the virtual state hold again. -/
theorem step_returns {env : Env} {sp : Nat → Val → Val} (E : EnvS env sp) (hF : FirstFn env) (N : Nat) : StepTotF NestH.stepFuel env sp N :=
  FullT.stepTotF'' E hF

/-- **the drain returns** if the state it ends in has room. -/
theorem drain_returns {env : Env} {sp : Nat → Val → Val} (E : EnvS env sp) (hF : FirstFn env) {N fuel : Nat} {t s s' : State} {g : Nat → Option Val}
    {r : Except Panic Unit} (X : DF env sp N t s g none) (h : (drainHeap env fuel).run.run s = (r, s')) (hN : s'.nodes.size ≤ N)
    (hf : NestH.stepFuel s'.nodes.size + Sched.unrun (virt g s) + s'.nodes.size + 1 ≤ fuel + s.nodes.size) :
    r = .ok () ∧ ∃ g', DF env sp N t s' g' none :=
  drainHeap_totF E hF (FullT.stepTotF'' E hF) FullT.stepFuel_facts.2.2.2 FullT.stepFuel_facts.2.1 fuel t s s' g r X h hN hf

/-- **C01 ∧ C04 for the combined fragment (identity machines): the history RUNS, and at every `stabilise` every in-use observer reads the text-level reference semantics of the program built so far.** -/
theorem history_total_denote {env : Env} {sp : Nat → Val → Val} (E : EnvS env sp) (hF : FirstFn env) (po : Nat → Bool) (Z : ZipPair env)
    (hpo : ∀ m, po m = true) (hsp : ∀ m v, sp m v = v) {N : Nat} {d : Bool} {as bs : List Action}
    (hH : HistFull env sp 0 (as ++ Action.stabilise :: bs)) (hV : ValidIdxF 0 0 0 (as ++ Action.stabilise :: bs))
    (hroom : HasRoomG needFuelF N fuelDefault (runS env (as ++ Action.stabilise :: bs) (State.init N d) #[]).2) :
    ∃ s tk s1 tk1 s2, Quiet.runActions env (as ++ Action.stabilise :: bs) (State.init N d) #[] = .ok (s, tk) ∧
      Quiet.runActions env as (State.init N d) #[] = .ok (s1, tk1) ∧
      (stabilise env fuelDefault).run.run s1 = (.ok (), s2) ∧ QInvFE env sp s2 ∧
      (∀ (o : Nat) (ob : ObsRec), s2.observers[o]? = some ob → ob.state = .inUse →
        ∃ v j, s2.tryGetValue env o = .ok v ∧ s2.top[j]? = some ob.node ∧
          ∃ F, ∀ f, F ≤ f → Spec.denoteTop (progOf env po as) f j = some v) ∧
      Quiet.runActions env bs s2 tk1 = .ok (s, tk) := by
  obtain ⟨s, tk, h, -⟩ := history_never_panics E hF hH hV hroom
  obtain ⟨s1, tk1, s2, h1, h2, Q2, hr, h3⟩ := history_stabilise_denote' E hF po Z hpo hsp hH h
  exact ⟨s, tk, s1, tk1, s2, h, h1, h2, Q2, hr, h3⟩

/-! ## non-vacuity -/

/-- THE THEOREM APPLIES to the example history `exHistF` of `C01Full` (a bind whose closure builds a map_ref chain, a `map_with_old` machine, a map and a NESTED bind with its own map_ref + machine; the pair
variable is written, the lhs changes, the observer is disallowed and the node observed again, the inner lhs changes): fragment, indices (by `decide`) and room (kernel evaluation of the final node count
only) hold — for BOTH `cfg.debug` settings —, hence it never panics. -/
example : (∃ s tk, Quiet.runActions fEnv exHistF (State.init 128 true) #[] = .ok (s, tk) ∧ QInvFE fEnv fSp s) ∧
    (∃ s tk, Quiet.runActions fEnv exHistF (State.init 128 false) #[] = .ok (s, tk) ∧ QInvFE fEnv fSp s) :=
  ⟨history_never_panics fEnv_envS fEnv_first exHistF_frag exHistF_idx (room_of_size exHistF_size),
   history_never_panics fEnv_envS fEnv_first exHistF_frag exHistF_idx (room_of_size exHistF_size')⟩

/-- … and to `exHistG` (`depend_on` fires / is suppressed, the `cutoff n never` action: spurious change), both debug settings. -/
example : (∃ s tk, Quiet.runActions fEnv exHistG (State.init 128 true) #[] = .ok (s, tk) ∧ QInvFE fEnv fSp s) ∧
    (∃ s tk, Quiet.runActions fEnv exHistG (State.init 128 false) #[] = .ok (s, tk) ∧ QInvFE fEnv fSp s) :=
  ⟨history_never_panics fEnv_envS fEnv_first exHistG_frag exHistG_idx (room_of_size exHistG_size),
   history_never_panics fEnv_envS fEnv_first exHistG_frag exHistG_idx (room_of_size exHistG_size')⟩

/-- the hypotheses are decidable statements about the TEXT of the history plus the node count of the final state -/
example : ValidIdxF 0 0 0 exHistF ∧ ValidIdxF 0 0 0 exHistG ∧ HistFull fEnv fSp 0 exHistF ∧ HistFull fEnv fSp 0 exHistG ∧
    (runS fEnv exHistF (State.init 128 true) #[]).2.nodes.size ≤ 64 ∧ (runS fEnv exHistG (State.init 128 false) #[]).2.nodes.size ≤ 64 :=
  ⟨exHistF_idx, exHistG_idx, exHistF_frag, exHistG_frag, exHistF_size, exHistG_size'⟩

end IncrVerif.Props.C04Full
