import IncrVerif.MapOps.SymDiff
/-!
# Model of the diff-based operators of `incremental-map/src/lib.rs`, `btree_map.rs`, `im_rc.rs`

Each operator is a `map_with_old` closure wrapped by `with_old_input_output(2)`: a Mealy machine whose
state is the previous input (kept inside the closure) and whose previous output is the node's old value.
The functions below are literal transcriptions of those closures.  Besides the output and the
`did_change` flag they return the list of user-function calls they made (key, role), which is what C17
is about.  Maps are sorted association lists (`AMap`), keys and values `Int`.
-/
namespace IncrVerif.MapOps
open IncrVerif

/-- roles of a user-function call, for the call log -/
inductive Role where
  | fn | add | remove | update | merge
deriving DecidableEq, Repr

abbrev Call := Role × Int

/-! ## `incr_filter_mapi` (and `incr_map`, `incr_mapi`, `incr_filter_map`, which are instances) -/

/-- `filter_map_collect` -/
def filterMapCollect (f : Int → Int → Option Int) (m : AMap Int) : AMap Int :=
  m.filterMap fun kv => (f kv.1 kv.2).map fun v2 => (kv.1, v2)

/-- one step of the `symmetric_fold` closure of `incr_filter_mapi` -/
def filterMapiFold (f : Int → Int → Option Int) (acc : AMap Int × List Call)
    (e : Int × DiffElement Int) : AMap Int × List Call :=
  match e with
  | (key, .left _) => (acc.1.erase key, acc.2)
  | (key, .right v) | (key, .unequal _ v) =>
    match f key v with
    | some v2 => (acc.1.insert key v2, acc.2 ++ [(.fn, key)])
    | none => (acc.1.erase key, acc.2 ++ [(.fn, key)])

/-- the closure of `incr_filter_mapi`: `old = some (old_input, old_output)` once it has run -/
def filterMapiStep (f : Int → Int → Option Int) (old : Option (AMap Int × AMap Int)) (input : AMap Int) :
    AMap Int × Bool × List Call :=
  match old, input.length with
  | _, 0 => (filterMapCollect f input, true, input.map fun kv => (.fn, kv.1))
  | none, _ => (filterMapCollect f input, true, input.map fun kv => (.fn, kv.1))
  | some (oldIn, oldOut), _ =>
    let d := symmetricDiff oldIn input
    let r := d.foldl (filterMapiFold f) (oldOut, [])
    (r.1, !d.isEmpty, r.2)

/-! ## `incr_unordered_fold_with` -/

/-- an `UnorderedFold` implementation: `add`, `remove`, `update` on an accumulator of type `ρ` -/
structure UFold (ρ : Type) where
  add : ρ → Int → Int → ρ
  remove : ρ → Int → Int → ρ
  update : ρ → Int → Int → Int → ρ
  revertToInitWhenEmpty : Bool

/-- `update` of `PlainUnorderedFold`: the default `remove` then `add` -/
def UFold.plain {ρ : Type} (add remove : ρ → Int → Int → ρ) (revert : Bool) : UFold ρ :=
  { add := add, remove := remove, revertToInitWhenEmpty := revert,
    update := fun acc k old new => add (remove acc k old) k new }

def ufoldFold {ρ : Type} (u : UFold ρ) (acc : ρ × List Call) (e : Int × DiffElement Int) : ρ × List Call :=
  match e with
  | (key, .left v) => (u.remove acc.1 key v, acc.2 ++ [(.remove, key)])
  | (key, .right v) => (u.add acc.1 key v, acc.2 ++ [(.add, key)])
  | (key, .unequal lv rv) => (u.update acc.1 key lv rv, acc.2 ++ [(.update, key)])

/-- the closure of `incr_unordered_fold_with` -/
def ufoldStep {ρ : Type} (u : UFold ρ) (init : ρ) (old : Option (AMap Int × ρ)) (input : AMap Int) :
    ρ × Bool × List Call :=
  match old with
  | none =>
    -- `initial_fold`: `nonincremental_fold` with `add`
    (input.foldl (fun acc kv => u.add acc kv.1 kv.2) init, true, input.map fun kv => (.add, kv.1))
  | some (oldIn, oldOut) =>
    if u.revertToInitWhenEmpty && input.isEmpty then (init, !oldIn.isEmpty, [])
    else
      let d := symmetricDiff oldIn input
      let r := d.foldl (ufoldFold u) (oldOut, [])
      (r.1, !d.isEmpty, r.2)

/-! ## `incr_merge` (`merge_shared_impl` + the closure in `btree_map.rs` / `im_rc.rs`) -/

/-- what the user's merge function is called with -/
abbrev MergeArg := MergeElement Int Int

def mergeFold (f : Int → MergeArg → Option Int) (newL newR : AMap Int) (acc : AMap Int × List Call)
    (e : MergeElement (Int × DiffElement Int) (Int × DiffElement Int)) : AMap Int × List Call :=
  let key := match e with
    | .left (k, _) | .right (k, _) | .both (k, _) _ => k
  let data : Option Int × Option Int := match e with
    | .both (_, ld) (_, rd) => (ld.newData, rd.newData)
    | .left (_, ld) => (ld.newData, newR.lookup key)
    | .right (_, rd) => (newL.lookup key, rd.newData)
  let outOpt : Option Int × List Call := match data with
    | (none, none) => (none, [])
    | (some x, none) => (f key (.left x), [(.merge, key)])
    | (none, some y) => (f key (.right y), [(.merge, key)])
    | (some a, some b) => (f key (.both a b), [(.merge, key)])
  match outOpt.1 with
  | none => (acc.1.erase key, acc.2 ++ outOpt.2)
  | some r => (acc.1.insert key r, acc.2 ++ outOpt.2)

/-- the closure of `incr_merge`: `old = some (old_left, old_right, old_output)` -/
def mergeStep (f : Int → MergeArg → Option Int) (old : Option (AMap Int × AMap Int × AMap Int))
    (newL newR : AMap Int) : AMap Int × Bool × List Call :=
  let (oldL, oldR, oldOut) := old.getD ([], [], [])
  let ld := symmetricDiff oldL newL
  let rd := symmetricDiff oldR newR
  let stream := mergeDiffs ld rd
  let r := stream.foldl (mergeFold f newL newR) (oldOut, [])
  (r.1, !stream.isEmpty, r.2)

/-! ## `incr_partition_mapi` (`PartitionMapi` in `im_rc.rs`): an `UnorderedFold` on a pair of maps -/

/-- `Either<A, B>` with `A = B = Int` -/
inductive Either where
  | left (a : Int) | right (b : Int)
deriving DecidableEq, Repr

def partitionUFold (f : Int → Int → Either) : UFold (AMap Int × AMap Int) where
  add := fun lr k v => match f k v with
    | .left a => (lr.1.insert k a, lr.2)
    | .right b => (lr.1, lr.2.insert k b)
  remove := fun lr k _ => (lr.1.erase k, lr.2.erase k)
  update := fun lr k _ v => match f k v with
    | .left a => (lr.1.insert k a, lr.2.erase k)
    | .right b => (lr.1.erase k, lr.2.insert k b)
  revertToInitWhenEmpty := true

/-! ## reference definitions (the non-incremental meaning of each operator) -/

def filterMapSpec (f : Int → Int → Option Int) (m : AMap Int) : AMap Int := filterMapCollect f m

def ufoldSpecSum (g : Int → Int → Int) (init : Int) (m : AMap Int) : Int :=
  m.foldl (fun acc kv => acc + g kv.1 kv.2) init

/-- key-wise merge: for every key of either map, `f` on what the two maps hold for it -/
def mergeSpec' (f : Int → MergeArg → Option Int) (l r : AMap Int) : AMap Int :=
  (mergeDiffs (l.map fun kv => (kv.1, kv.2)) (r.map fun kv => (kv.1, kv.2))).filterMap fun e =>
    match e with
    | .left (k, x) => (f k (.left x)).map fun v => (k, v)
    | .right (k, y) => (f k (.right y)).map fun v => (k, v)
    | .both (k, x) (_, y) => (f k (.both x y)).map fun v => (k, v)

def partitionSpec (f : Int → Int → Either) (m : AMap Int) : AMap Int × AMap Int :=
  (m.filterMap fun kv => match f kv.1 kv.2 with | .left a => some (kv.1, a) | .right _ => none,
   m.filterMap fun kv => match f kv.1 kv.2 with | .right b => some (kv.1, b) | .left _ => none)

end IncrVerif.MapOps
