import IncrVerif.MapOps.SymDiff
/-!
# Reference definitions for C18 (specification side)

`classify` says what the diff must report for one key; `DiffSpec` is the declarative
specification of a symmetric diff; `refDiff`/`refMerge` are the textbook structural merges the
state machines of `SymDiff.lean` are proved equal to.
-/
namespace IncrVerif.MapOps
open IncrVerif

variable {α : Type} [DecidableEq α]

/-- what a symmetric diff must say about key `k` -/
def classify (a b : AMap α) (k : Int) : Option (Int × DiffElement α) :=
  match a.lookup k, b.lookup k with
  | some x, some y => if x ≠ y then some (k, .unequal x y) else none
  | some x, none => some (k, .left x)
  | none, some y => some (k, .right y)
  | none, none => none

/-- textbook merge of two strictly ascending key lists, equal keys once -/
def mergeSpec : List Int → List Int → List Int
  | [], b => b
  | a, [] => a
  | x :: a, y :: b =>
    if x < y then x :: mergeSpec a (y :: b)
    else if x = y then x :: mergeSpec a b
    else y :: mergeSpec (x :: a) b
termination_by a b => a.length + b.length

/-- textbook symmetric difference of two sorted association lists -/
def refDiff : AMap α → AMap α → List (Int × DiffElement α)
  | [], b => b.map (fun kv => (kv.1, .right kv.2))
  | a, [] => a.map (fun kv => (kv.1, .left kv.2))
  | (ka, va) :: ra, (kb, vb) :: rb =>
    if ka < kb then (ka, .left va) :: refDiff ra ((kb, vb) :: rb)
    else if kb < ka then (kb, .right vb) :: refDiff ((ka, va) :: ra) rb
    else if va ≠ vb then (ka, .unequal va vb) :: refDiff ra rb
    else refDiff ra rb
termination_by a b => a.length + b.length

/-- textbook two-way merge of two key-ascending streams, pairing equal keys -/
def refMerge {β γ : Type} : List (Int × β) → List (Int × γ) → List (MergeElement (Int × β) (Int × γ))
  | [], r => r.map .right
  | l, [] => l.map .left
  | x :: l, y :: r =>
    if x.1 < y.1 then .left x :: refMerge l (y :: r)
    else if y.1 < x.1 then .right y :: refMerge (x :: l) r
    else .both x y :: refMerge l r
termination_by l r => l.length + r.length

/-- key of a merge element -/
def MergeElement.key {β γ : Type} : MergeElement (Int × β) (Int × γ) → Int
  | .left x => x.1
  | .right y => y.1
  | .both x _ => x.1

/-- owned form of a borrowed diff entry -/
def toOwned : Int × DiffElement α → DiffElement (Int × α)
  | (k, .left v) => .left (k, v)
  | (k, .right v) => .right (k, v)
  | (k, .unequal o n) => .unequal (k, o) (k, n)

end IncrVerif.MapOps
