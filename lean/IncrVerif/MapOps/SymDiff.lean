import IncrVerif.Basic.AssocMap
/-!
# Model of `incremental-map/src/symmetric_fold.rs`

Literal transcriptions of the iterator state machines.  A `Peekable<I>` over an ordered
container is modelled by the list of items still to come (`peek` = `head?`, `next` = uncons).
Every `next` function below mirrors the Rust `fn next` of the struct of the same name,
line by line, including the `fused` flag.  Loops that `continue` take a fuel argument.
-/
namespace IncrVerif.MapOps
open IncrVerif

/-- `DiffElement<V>` -/
inductive DiffElement (α : Type) where
  | unequal (old new : α)
  | left (v : α)
  | right (v : α)
deriving DecidableEq, Repr, BEq

/-- `DiffElement::new_data` -/
def DiffElement.newData {α} : DiffElement α → Option α
  | .left _ => none
  | .right r => some r
  | .unequal _ r => some r

/-- `MergeElement<L,R>` -/
inductive MergeElement (L R : Type) where
  | left (l : L)
  | right (r : R)
  | both (l : L) (r : R)
deriving DecidableEq, Repr, BEq

/-! ## `MergeOnce` (over key iterators) -/

structure MergeOnce where
  a : List Int
  b : List Int
  fused : Option Bool := none
deriving Repr

/-- `impl Iterator for MergeOnce :: next` (symmetric_fold.rs) -/
def MergeOnce.next (s : MergeOnce) : Option Int × MergeOnce :=
  -- let (less_than, both) = match self.fused { ... }
  let sel : Option (Bool × Bool × Option Bool) :=
    match s.fused with
    | some lt => some (lt, false, s.fused)
    | none =>
      match s.a.head?, s.b.head? with
      | some x, some y => some (decide (x ≤ y), decide (x = y), none)
      | some _, none => some (true, false, some true)
      | none, some _ => some (false, false, some false)
      | none, none => none
  match sel with
  | none => (none, s)
  | some (lessThan, both, fused') =>
    if lessThan then
      let b' := if both then s.b.tail else s.b
      (s.a.head?, { a := s.a.tail, b := b', fused := fused' })
    else
      let a' := if both then s.a.tail else s.a
      (s.b.head?, { a := a', b := s.b.tail, fused := fused' })

/-- run an iterator to exhaustion (`Iterator::fold`/`collect`) -/
def MergeOnce.collect : Nat → MergeOnce → List Int
  | 0, _ => []
  | fuel+1, s =>
    match s.next with
    | (none, _) => []
    | (some x, s') => x :: collect fuel s'

/-! ## `SymmetricDiff` (borrowing iterator over two `BTreeMap`s) -/

structure SymmetricDiff (α : Type) where
  self_ : AMap α
  other : AMap α
  keys : MergeOnce

variable {α : Type} [DecidableEq α]

/-- `impl Iterator for SymmetricDiff :: next`; the `loop` is bounded by the number of keys
left, which is what `fuel` must cover. -/
def SymmetricDiff.next : Nat → SymmetricDiff α → Option (Int × DiffElement α) × SymmetricDiff α
  | 0, s => (none, s)
  | fuel+1, s =>
    match s.keys.next with
    | (none, ks) => (none, { s with keys := ks })              -- `self.keys.next()?`
    | (some key, ks) =>
      let s' := { s with keys := ks }
      match s.self_.lookup key, s.other.lookup key with
      | some a, some b =>
        if a ≠ b then (some (key, .unequal a b), s') else SymmetricDiff.next fuel s'
      | some a, none => (some (key, .left a), s')
      | none, some b => (some (key, .right b), s')
      | none, none => (none, s')

def SymmetricDiff.collect : Nat → SymmetricDiff α → List (Int × DiffElement α)
  | 0, _ => []
  | fuel+1, s =>
    match SymmetricDiff.next (s.keys.a.length + s.keys.b.length + 1) s with
    | (none, _) => []
    | (some x, s') => x :: collect fuel s'

/-- `BTreeMap::symmetric_diff` followed by exhaustion, i.e. what `symmetric_fold` folds over. -/
def symmetricDiff (a b : AMap α) : List (Int × DiffElement α) :=
  SymmetricDiff.collect (a.length + b.length + 1)
    { self_ := a, other := b, keys := { a := a.keys, b := b.keys } }

/-! ## `SymmetricDiffOwned` -/

structure SymmetricDiffOwned (α : Type) where
  self_ : AMap α
  other : AMap α
  fused : Option Bool := none

def SymmetricDiffOwned.next :
    Nat → SymmetricDiffOwned α → Option (DiffElement (Int × α)) × SymmetricDiffOwned α
  | 0, s => (none, s)
  | fuel+1, s =>
    -- `let less_than = loop { ... }`
    let emit (lt : Bool) (s : SymmetricDiffOwned α) :
        Option (DiffElement (Int × α)) × SymmetricDiffOwned α :=
      if lt then (s.self_.head?.map .left, { s with self_ := s.self_.tail })
      else (s.other.head?.map .right, { s with other := s.other.tail })
    match s.fused with
    | some lt => emit lt s
    | none =>
      match s.self_, s.other with
      | (ka, va) :: ra, (kb, vb) :: rb =>
        if ka < kb then emit true s
        else if kb < ka then emit false s
        else
          let s' := { s with self_ := ra, other := rb }
          if va ≠ vb then (some (.unequal (ka, va) (kb, vb)), s')
          else SymmetricDiffOwned.next fuel s'
      | _ :: _, [] => emit true { s with fused := some true }
      | [], _ :: _ => emit false { s with fused := some false }
      | [], [] => (none, s)

def SymmetricDiffOwned.collect : Nat → SymmetricDiffOwned α → List (DiffElement (Int × α))
  | 0, _ => []
  | fuel+1, s =>
    match SymmetricDiffOwned.next (s.self_.length + s.other.length + 1) s with
    | (none, _) => []
    | (some x, s') => x :: collect fuel s'

def symmetricDiffOwned (a b : AMap α) : List (DiffElement (Int × α)) :=
  SymmetricDiffOwned.collect (a.length + b.length + 1) { self_ := a, other := b }

/-! ## `MergeOnceWith` (custom comparator; used on two diff streams by `merge_shared_impl`) -/

structure MergeOnceWith (L R : Type) where
  a : List L
  b : List R
  fused : Option Bool := none

/-- `impl Iterator for MergeOnceWith :: next` -/
def MergeOnceWith.next {L R : Type} (fcmp : L → R → Ordering) (s : MergeOnceWith L R) :
    Option (MergeElement L R) × MergeOnceWith L R :=
  let sel : Option (Ordering × Option Bool) :=
    match s.fused with
    | some true => some (.lt, s.fused)
    | some false => some (.gt, s.fused)
    | none =>
      match s.a.head?, s.b.head? with
      | some x, some y => some (fcmp x y, none)
      | some _, none => some (.lt, some true)
      | none, some _ => some (.gt, some false)
      | none, none => none
  match sel with
  | none => (none, s)
  | some (.eq, f) =>
    -- `self.a.next().zip(self.b.next()).map(Both)`
    (match s.a.head?, s.b.head? with
      | some x, some y => some (.both x y)
      | _, _ => none,
     { a := s.a.tail, b := s.b.tail, fused := f })
  | some (.lt, f) => (s.a.head?.map .left, { a := s.a.tail, b := s.b, fused := f })
  | some (.gt, f) => (s.b.head?.map .right, { a := s.a, b := s.b.tail, fused := f })

def MergeOnceWith.collect {L R : Type} (fcmp : L → R → Ordering) :
    Nat → MergeOnceWith L R → List (MergeElement L R)
  | 0, _ => []
  | fuel+1, s =>
    match s.next fcmp with
    | (none, _) => []
    | (some x, s') => x :: collect fcmp fuel s'

/-- the comparator `|(k, _), (k2, _)| k.cmp(k2)` of `merge_shared_impl` -/
def keyCmp {β γ : Type} (x : Int × β) (y : Int × γ) : Ordering := compare x.1 y.1

/-- the stream `merge_shared_impl` folds over -/
def mergeDiffs {β γ : Type} (l : List (Int × β)) (r : List (Int × γ)) :
    List (MergeElement (Int × β) (Int × γ)) :=
  MergeOnceWith.collect keyCmp (l.length + r.length + 1) { a := l, b := r }

/-! ## `im_rc::OrdMap` adapter -/

/-- `im_rc::ordmap::DiffItem` -/
inductive DiffItem (α : Type) where
  | add (k : Int) (v : α)
  | update (k : Int) (old : α) (k' : Int) (new : α)
  | remove (k : Int) (v : α)
deriving Repr

/-- `DiffElement::from_diff_item` (im_rc.rs) -/
def fromDiffItem : DiffItem α → Int × DiffElement α
  | .add k v => (k, .right v)
  | .remove k v => (k, .left v)
  | .update k old _ new => (k, .unequal old new)

end IncrVerif.MapOps
