import IncrVerif.Engine.Alive
import IncrVerif.MapOps.Operators
/-!
# Engine model: recompute, var writes, observers, handlers, stabilise
-/
namespace IncrVerif.Engine

def fnZip : Nat := 1000000
def fnFirst : Nat := 1000001
/-- the conversions between `V` and the concrete map types around an incremental-map operator -/
def fnIdent : Nat := 1000002
/-- `fnPerKey + i`: the `lhs_change` closure of per-key operator instance `i` -/
def fnPerKey : Nat := 2000000
/-- `map_with_old` ids from here on are incremental-map operator closures (see `History.lean`) -/
def opBase : Nat := 1000000

def bumpCounter (f : Counters → Counters) : M Unit :=
  modify fun s => { s with counters := f s.counters }

/-! ## node creation (`Node::create`, `into_rc`, the constructors of `incr.rs`/`state.rs`) -/

def createNode (kind : Kind) (scope : Scope) (cutoff : CutoffK := .eq) : M Nat := do
  let s ← get
  let n := s.nodes.size
  bumpCounter fun c => { c with created := c.created + 1 }
  modify fun s => { s with nodes := s.nodes.push { kind := kind, createdIn := scope, cutoff := cutoff } }
  match scope with
  | .top => pure ()
  | .bind b => modBind b fun x => { x with allNodesCreatedOnRhs := x.allNodesCreatedOnRhs ++ [n] }
  pure n

def createVar (v : Val) (scope : Scope := .top) : M Nat := do
  let s ← get
  let cell := s.vars.size
  let n ← createNode (.var cell) scope
  modify fun s => { s with vars := s.vars.push { value := v, setAt := s.stabNum, node := n } }
  pure n

def createBind (body lhs : Nat) : M Nat := do
  let s ← get
  let b := s.binds.size
  modify fun s => { s with binds := s.binds.push { lhs := lhs, body := body } }
  let sc := s.currentScope
  let lc ← createNode (.bindLhsChange b) sc .never
  let main ← createNode (.bindMain b lc) sc
  modBind b fun x => { x with lhsChange := lc, main := main }
  pure main

def isConstant (n : Nat) : M (Option Val) := do
  match (← getNode n).kind? with
  | some (.const v) => pure (some v)
  | _ => pure none

def resolveOpnd (loc : List Nat) (o : Opnd) : M Nat := do
  match o with
  | .outer k => match (← get).top[k]? with
    | some n => pure n
    | none => panic "model:bad-outer"
  | .abs n => pure n
  | .loc j => match loc[j]? with
    | some n => pure n
    | none => panic "model:bad-local"
  | .slot k => match (← get).slots.lookup k with
    | some n => pure n
    | none => panic "model:empty-slot"

/-- elaborate one creation instruction; `loc` are the nodes created so far by this closure run,
`lhsVal` the value the closure received -/
def elabInstr (loc : List Nat) (lhsVal : Val) (i : Instr) : M (Option Nat) := do
  let res (o : Opnd) : M Nat := resolveOpnd loc o
  let sc := (← get).currentScope
  match i with
  | .const v => some <$> createNode (.const v) sc
  | .lhsConst => some <$> createNode (.const lhsVal) sc
  | .var v => some <$> createVar v .top
  | .map f args => do
    let args ← args.mapM res
    some <$> createNode (.map f args) sc
  | .fold f init cs => do
    let cs ← cs.mapM res
    if cs.isEmpty then some <$> createNode (.const init) sc
    else some <$> createNode (.fold f init cs) sc
  | .mapRef p i => do some <$> createNode (.mapRef p (← res i)) sc
  | .mapWithOld g i => do some <$> createNode (.mapWithOld g (← res i)) sc
  | .bind body lhs => do some <$> createBind body (← res lhs)
  | .zip a b => do
    let a ← res a
    let b ← res b
    match ← isConstant a, ← isConstant b with
    | some va, some vb => some <$> createNode (.const (.pair va vb)) sc
    | _, _ => some <$> createNode (.map fnZip [a, b]) sc
  | .dependOn a b => do
    let a ← res a
    let b ← res b
    some <$> createNode (.map fnFirst [a, b]) sc (.dependOn a)
  | .cutoff n c => do
    let n ← res n
    modNode n fun x => { x with cutoff := c }
    pure none
  | .expert f => do
    let e := (← get).experts.size
    modify fun s => { s with experts := s.experts.push { f := f } }
    let n ← createNode (.expert e) sc
    modExpert e fun x => { x with node := n }
    pure (some n)
  | .publish k o => do
    let n ← res o
    modify fun s => { s with slots := (k, n) :: s.slots.filter (·.1 != k) }
    pure none
  | .scopedVar v => some <$> createVar v sc
  | .memoCall _ _ => panic "model:nested-memo"
  | .mapOp op => do
    let conv (x : Nat) : M Nat := createNode (.map fnIdent [x]) sc
    match op with
    | .fm m x => do
      let a ← conv (← res x)
      let o ← createNode (.mapWithOld (opBase + m) a) sc
      some <$> conv o
    | .fold m rev upd x => do
      let a ← conv (← res x)
      let g := opBase + 100000 + (if rev then 20000 else 0) + (if upd then 10000 else 0) + m
      let o ← createNode (.mapWithOld g a) sc
      some <$> conv o
    | .merge m x y => do
      let a ← conv (← res x)
      let b ← conv (← res y)
      let z ← createNode (.map fnZip [a, b]) sc
      let o ← createNode (.mapWithOld (opBase + 200000 + m) z) sc
      some <$> conv o
    | .part m x => do
      let a ← conv (← res x)
      let o ← createNode (.mapWithOld (opBase + 300000 + m) a) sc
      some <$> conv o
  | .perKey cut fam x => do
    let a ← createNode (.map fnIdent [← res x]) sc
    let e := (← get).experts.size
    let pk := (← get).perkeys.size
    modify fun s => { s with experts := s.experts.push { f := 0, pk := some (pk, none) } }
    let result ← createNode (.expert e) sc
    modExpert e fun r => { r with node := result }
    let lc ← createNode (.map (fnPerKey + pk) [a]) sc
    modify fun s => { s with perkeys := s.perkeys.push { fam := fam, cut := cut, result := result, lhsChange := lc } }
    -- `result.add_dependency(&lhs_change)`: the node was just created, so it is not necessary and the
    -- call only records the edge
    let dep := (← get).nextDep
    modify fun s => { s with nextDep := s.nextDep + 1 }
    modExpert e fun r => { r with children := r.children ++ [{ dep := dep, child := lc, cb := none }], forceStale := true }
    some <$> createNode (.map fnIdent [result]) sc

/-- elaborate a template whose first locals are `init` (no memoised calls inside) -/
def elabTemplateBase (t : Template) (lhsVal : Val) (init : List Nat := []) : M Nat := do
  let mut loc : List Nat := init
  for i in t.instrs do
    match ← elabInstr loc lhsVal i with
    | some n => loc := loc ++ [n]
    | none => pure ()
  resolveOpnd loc t.ret

/-- a call of a `weak_memoize_fn` function: the stored node if it is still alive, otherwise the function
runs inside the scope the memoised function was created in (top level) and its result is stored -/
def memoCall (env : Env) (m : Nat) (key : Int) : M Nat := do
  let s ← get
  let stored := ((s.memos.lookup m).getD []).lookup key
  match stored with
  | some n =>
    if s.isAlive n then return n
  | none => pure ()
  tick
  logEv (.note s!"memo m{m} invoked {key}")
  let old := (← get).currentScope
  modify fun s => { s with currentScope := .top }
  let n ← elabTemplateBase (env.memo m) (.int key)
  modify fun s => { s with currentScope := old }
  modify fun s => { s with memos :=
    (m, (key, n) :: ((s.memos.lookup m).getD []).filter (·.1 != key)) :: s.memos.filter (·.1 != m) }
  pure n

/-- `elabInstr` plus memoised calls (what closures and top-level actions run) -/
def elabInstrM (env : Env) (loc : List Nat) (lhsVal : Val) (i : Instr) : M (Option Nat) := do
  match i with
  | .memoCall m key => some <$> memoCall env m key
  | i => elabInstr loc lhsVal i

def elabTemplate (env : Env) (t : Template) (lhsVal : Val) : M Nat := do
  let mut loc : List Nat := []
  for i in t.instrs do
    match ← elabInstrM env loc lhsVal i with
    | some n => loc := loc ++ [n]
    | none => pure ()
  resolveOpnd loc t.ret

/-! ## var writes (`var.rs`) -/

def getVar (v : Nat) : M VarCell := do
  match (← get).vars[v]? with
  | some x => pure x
  | none => panic "model:no-such-var"

def modVar (v : Nat) (f : VarCell → VarCell) : M Unit :=
  modify fun s => { s with vars := s.vars.modify v f }

/-- `did_set_var_while_not_stabilising` -/
def didSetVarWhileNotStabilising (v : Nat) : M Unit := do
  let vc ← getVar v
  if !vc.linked then panic "var:abandoned-watch-node"
  bumpCounter fun c => { c with varSets := c.varSets + 1 }
  let s ← get
  if vc.setAt < s.stabNum then
    modVar v fun x => { x with setAt := s.stabNum }
    let s ← get
    -- D14 repair: an invalidated watch node (var_current_scope) is neither stale nor ever scheduled again
    dassert (!(s.nodeD vc.node).valid || s.isStale vc.node) "var:did_set:watch-stale"
    if (s.nodeD vc.node).valid && s.isNecessary vc.node && !(s.nodeD vc.node).inRch then rchInsert vc.node

/-- the five write operations, as "new value from old value"; returns what `replace*` returns -/
def writeVar (v : Nat) (f : Val → Val) (isSet : Bool := false) : M Val := do
  let vc ← getVar v
  match (← get).status with
  | .stabilising =>
    match vc.pending with
    | some d =>
      modVar v fun x => { x with pending := some (f d) }
      pure d
    | none =>
      modify fun s => { s with setDuringStab := v :: s.setDuringStab }
      modVar v fun x => { x with pending := some (f vc.value) }
      pure (if isSet then vc.value else vc.value)
  | _ =>
    modVar v fun x => { x with value := f vc.value }
    didSetVarWhileNotStabilising v
    pure vc.value

def Val.addInt (x : Val) (d m : Int) : Val := .int ((x.toInt + d) % m)

/-! ## observers (`internal_observer.rs`, `public.rs`) -/

def getObs (o : Nat) : M ObsRec := do
  match (← get).observers[o]? with
  | some x => pure x
  | none => panic "model:no-such-observer"

def modObs (o : Nat) (f : ObsRec → ObsRec) : M Unit :=
  modify fun s => { s with observers := s.observers.modify o f }

inductive ObsError where
  | currentlyStabilising | neverStabilised | disallowed | observingInvalid | mismatch
deriving Repr, DecidableEq, Inhabited

def ObsError.render : ObsError → String
  | .currentlyStabilising => "CurrentlyStabilising"
  | .neverStabilised => "NeverStabilised"
  | .disallowed => "Disallowed"
  | .observingInvalid => "ObservingInvalid"
  | .mismatch => "Mismatch"

/-- `try_get_value` -/
def State.tryGetValue (env : Env) (s : State) (o : Nat) : Except ObsError Val :=
  if !s.alive then .error .observingInvalid
  else if s.status == .stabilising then .error .currentlyStabilising
  else match s.observers[o]? with
    | none => .error .observingInvalid
    | some ob => match ob.state with
      | .created => .error .neverStabilised
      | .inUse => match s.value env ob.node with
        | some v => .ok v
        | none => .error .observingInvalid
      | _ => .error .disallowed

/-- `disallow_future_use` -/
def disallowFutureUse (o : Nat) : M Unit := do
  let ob ← getObs o
  match ob.state with
  | .disallowed | .unlinked => pure ()
  | .created =>
    bumpCounter fun c => { c with activeObservers := c.activeObservers - 1 }
    modObs o fun x => { x with state := .unlinked, handlers := [] }
  | .inUse =>
    bumpCounter fun c => { c with activeObservers := c.activeObservers - 1 }
    modObs o fun x => { x with state := .disallowed }
    modify fun s => { s with disallowedObservers := s.disallowedObservers ++ [o] }

/-- `Observer::try_subscribe` -/
def subscribe (o hid : Nat) : M (Except ObsError Nat) := do
  let s ← get
  if !s.alive then return .error .observingInvalid
  let ob ← getObs o
  match ob.state with
  | .disallowed | .unlinked => return .error .disallowed
  | _ =>
    let token := s.nextToken
    modify fun s => { s with nextToken := s.nextToken + 1 }
    modObs o fun x => { x with handlers := x.handlers ++ [{ token := token, hid := hid, createdAt := s.stabNum }] }
    if ob.state == .inUse then
      modNode ob.node fun x => { x with numOnUpdateHandlers := x.numOnUpdateHandlers + 1 }
    handleAfterStabilisation ob.node
    return .ok token

/-- `InternalObserver::unsubscribe`; `owner` is the observer the token was issued by -/
def unsubscribe (o token owner : Nat) : M (Except ObsError Unit) := do
  if owner != o then return .error .mismatch
  let ob ← getObs o
  match ob.state with
  | .disallowed | .unlinked => return .ok ()
  | st =>
    let removed := ob.handlers.any (·.token == token)
    modObs o fun x => { x with handlers := x.handlers.filter (·.token != token) }
    if st == .inUse && removed then      -- repaired D5
      modNode ob.node fun x => { x with numOnUpdateHandlers := x.numOnUpdateHandlers - 1 }
    return .ok ()

/-! ## effects of user code -/

/-- dropping one public `Var` handle (`impl Drop for Var`): the last one queues the var for `break_rc_cycle` at the
end of the next (or the running) stabilise; `false` when no handle is left -/
def dropVarHandle (v : Nat) : M Bool := do
  let vc ← getVar v
  if vc.handles == 0 then pure false
  else
    modVar v fun x => { x with handles := x.handles - 1 }
    if vc.handles == 1 then modify fun s => { s with deadVars := s.deadVars ++ [v] }
    pure true

/-- a closure can only write through a `Var` handle it still owns: after `dropvar` its writes are no-ops -/
def withVarHandle (v : Nat) (act : M Unit) : M Unit := do
  match (← get).vars[v]? with
  | some vc => if vc.handles == 0 then pure () else act
  | none => act

def runEffectBasic (env : Env) (e : Effect) : M Unit := do
  match e with
  | .dropVar v => discard <| dropVarHandle v
  | .setVar v x => withVarHandle v (discard <| writeVar v (fun _ => x) true)
  | .modifyVar v d => withVarHandle v (discard <| writeVar v (fun x => x.addInt d 7))
  | .updateVar v d => withVarHandle v (discard <| writeVar v (fun x => x.addInt d 7))
  | .replaceVar v x => withVarHandle v do
    let old ← writeVar v (fun _ => x)
    logEv (.note s!"replace v{v} -> {old.render}")
  | .replaceWithVar v d => withVarHandle v do
    let old ← writeVar v (fun x => x.addInt d 7)
    logEv (.note s!"replacewith v{v} -> {old.render}")
  | .readObs o =>
    let r := (← get).tryGetValue env o
    logEv (.note s!"read o{o} {match r with | .ok v => "ok " ++ v.render | .error e => "err " ++ e.render}")
  | .panic => panic "user"
  | .disallow o => disallowFutureUse o
  | _ => pure ()

/-! ## recompute -/

def valueUnwrap (env : Env) (n : Nat) (site : String) : M Val := do
  match (← get).value env n with
  | some v => pure v
  | none => panic site

/-- `child_changed` -/
def childChanged (env : Env) : Nat → Nat → Nat → Nat → Option Val → M Unit
  | 0, _, _, _, _ => throw .outOfFuel
  | fuel+1, p, child, childIndex, oldOpt => do
    match (← getNode p).kind? with
    | none => panic "node:child_changed:ParentInvalidated"
    | some (.expert e) => runEdgeCallback env e childIndex
    | some (.mapRef pr _) =>
      let selfOld := oldOpt.map (env.proj pr)
      let childNew ← valueUnwrap env child "node:child_changed:ChildHasNoValue"
      let selfNew := env.proj pr childNew
      let did ← match selfOld with
        | none => pure true
        | some o => do pure (!(← shouldCutoff env p o selfNew))
      modNode p fun x => { x with didChange := x.didChange || did }     -- repaired D1 (sticky)
      for (pp, ci) in (← getNode p).parents do
        childChanged env fuel pp p ci selfOld
    | some _ => pure ()

/-- `parent_iter_can_recompute_now` (repaired D2: the scope must have stabilised) -/
def parentIterCanRecomputeNow (p child : Nat) : M Bool := do
  let pn ← getNode p
  match pn.kind? with
  | none => pure false
  | some k =>
    let minH ← rchMinHeight
    let ch := (← getNode child).height
    let can ← match k with
      | .const _ | .var _ => panic "node:parent_iter_can_recompute_now:not-a-parent"
      | .fold .. | .expert _ => pure false
      | .map _ args =>
        if args.length ≥ 2 then pure false
        else do
          let sh ← scopeHeight pn.createdIn
          pure (ch > sh && minH > sh)
      | .bindLhsChange _ | .mapRef .. | .mapWithOld .. => do
        let sh ← scopeHeight pn.createdIn
        pure (ch > sh && minH > sh)
      | .bindMain _ lc => do
        let lh := (← getNode lc).height
        pure (ch > lh && minH > lh)
    if can || pn.height ≤ minH then pure true
    else
      let s ← get
      dassert (s.needsToBeComputed p) "node:parent_iter_can_recompute_now:needs-to-be-computed"
      dassert (!pn.inRch) "node:parent_iter_can_recompute_now:not-in-rch"
      rchInsert p
      pure false

/-- `maybe_change_value_manual` -/
def maybeChangeValueManual (env : Env) (fuel n : Nat) (oldOpt : Option Val) (didChange runChildChanged : Bool) :
    M (Option Nat) := do
  if !didChange then return none
  let now := (← get).stabNum
  modNode n fun x => { x with changedAt := now }
  bumpCounter fun c => { c with changed := c.changed + 1 }
  maybeHandleAfterStabilisation n
  let parents := (← getNode n).parents
  match parents with
  | [] => return none
  | (p0, ci0) :: rest =>
    for (p, ci) in rest do
      if runChildChanged then childChanged env fuel p n ci oldOpt
      dassert ((← get).needsToBeComputed p) "node:maybe_change_value:parent-needs-to-be-computed"
      if !(← getNode p).inRch then rchInsert p
    if runChildChanged then childChanged env fuel p0 n ci0 oldOpt
    dassert ((← get).needsToBeComputed p0) "node:maybe_change_value:parent-needs-to-be-computed"
    if !(← getNode p0).inRch then
      if ← parentIterCanRecomputeNow p0 n then return some p0
    return none

/-- `maybe_change_value` -/
def maybeChangeValue (env : Env) (fuel n : Nat) (new : Val) : M (Option Nat) := do
  let old := (← getNode n).value
  modNode n fun x => { x with value := none }
  let shouldChange ← match old with
    | none => pure true
    | some o => do pure (!(← shouldCutoff env n o new))
  modNode n fun x => { x with value := some new }
  maybeChangeValueManual env fuel n old shouldChange true

/-- the expert record of a node, also when the node is invalid -/
def expertIdxRaw (n : Nat) : M (Option Nat) := do
  match (← getNode n).kind with
  | .expert e => pure (some e)
  | _ => pure none

/-- effects of a user closure; `arg` is the integer view of the closure's first argument
(selects the target in the join/bind patterns) -/
def runEffects (env : Env) (fuel : Nat) (effs : List Effect) (arg : Int := 0) : M Unit := do
  for e in effs do
    match e with
    | .stabilise =>
      -- nested stabilise: the status assertion of `stabilise_debug`
      assertM ((← get).status == .notStabilising) "state:stabilise:status"
    | .xAdd e child cb => do
      let n ← resolveOpnd [] e
      let c ← resolveOpnd [] child
      let dep ← expertAddDependency env fuel n c cb
      match ← expertIdxRaw n with
      | some ei => modExpert ei fun x => { x with script := x.script ++ [dep] }
      | none => pure ()
    | .xRm e i => do
      let n ← resolveOpnd [] e
      match ← expertIdxRaw n with
      | none => pure ()
      | some ei =>
        let sc := (← getExpert ei).script
        if sc.length > 0 then
          let dep := sc[i % sc.length]?.getD 0
          modExpert ei fun x => { x with script := x.script.filter (· != dep) }
          expertRemoveDependency fuel n dep
    | .xSel e cb always targets => do
      let n ← resolveOpnd [] e
      match ← expertIdxRaw n with
      | none => pure ()
      | some ei =>
        if targets.length > 0 then
          let t ← resolveOpnd [] (targets[(arg % (targets.length : Int)).toNat]?.getD (.abs 0))
          let prev := (← getExpert ei).sel
          let same := match prev with | some (_, c) => c == t | none => false
          if always || !same then
            let dep ← expertAddDependency env fuel n t cb
            match prev with
            | some (d, _) => expertRemoveDependency fuel n d
            | none => pure ()
            modExpert ei fun x => { x with sel := some (dep, t) }
    | .xStale e => do expertMakeStale (← resolveOpnd [] e)
    | .xInval e => do expertInvalidate fuel (← resolveOpnd [] e)
    | _ => runEffectBasic env e

/-- the value an expert node's recompute closure returns -/
def expertValue (env : Env) (e : Nat) (depVals slotVals : List (Option Val)) : M Val := do
  let er ← getExpert e
  let s ← get
  match er.pk with
  | none => pure (env.expertFn er.f depVals slotVals)
  | some (op, some key) =>
    -- per-key input node: `prev_map.get(key).unwrap().clone()`
    match ((s.perkeys[op]?.map (·.prevMap)).getD []).lookup key with
    | some v => pure (.int v)
    | none => panic "incremental-map:per-key:prev_map-unwrap"
  | some (op, none) =>
    -- the operator's result: `acc.borrow().clone()`, i.e. what the edge callbacks stored, by key
    let pr := s.perkeys[op]?.getD default
    let acc := pr.prevNodes.filterMap fun (k, (_, dep)) =>
      match er.slots.lookup dep with
      | some v => some (k, v.toInt)
      | none => none
    pure (.map (IncrVerif.AMap.ofList acc))

/-- the `lhs_change` closure of a per-key operator (`incr_filter_mapi_generic_btree_map` /
`incr_filter_mapi_ordmap`, with the repaired D9: a per-key node nobody holds is skipped) -/
def perKeyDriver (env : Env) (fuel op : Nat) (newMap : List (Int × Int)) : M Unit := do
  let pr := (← get).perkeys[op]?.getD default
  let sc := (← get).currentScope
  for (key, diff) in IncrVerif.MapOps.symmetricDiff pr.prevMap newMap do
    let pr := (← get).perkeys[op]?.getD default
    match diff with
    | .unequal _ _ =>
      match pr.prevNodes.lookup key with
      | none => panic "incremental-map:per-key:nodes-get-unwrap"
      | some (node, _) => if (← get).isAlive node then expertMakeStale node
    | .left _ =>
      match pr.prevNodes.lookup key with
      | none => panic "incremental-map:per-key:nodes-remove-unwrap"
      | some (node, dep) =>
        modify fun s => { s with perkeys := s.perkeys.modify op fun p =>
          { p with prevNodes := p.prevNodes.filter (·.1 != key) } }
        let wasAlive := (← get).isAlive node
        expertRemoveDependency fuel pr.result dep
        if wasAlive then expertInvalidate fuel node
    | .right _ =>
      let e := (← get).experts.size
      modify fun s => { s with experts := s.experts.push { f := 0, pk := some (op, some key) } }
      let node ← createNode (.expert e) sc
      modExpert e fun r => { r with node := node }
      match pr.cut with
      | some c => modNode node fun x => { x with cutoff := c }
      | none => pure ()
      discard <| expertAddDependency env fuel node pr.lhsChange false
      tick
      logEv (.note s!"pk P{pr.fam} key {key} node n{node}")
      let mapped ← elabTemplateBase (env.perKey pr.fam) (.int key) [node]
      let dep ← expertAddDependency env fuel pr.result mapped true
      modify fun s => { s with perkeys := s.perkeys.modify op fun p =>
        { p with prevNodes := (key, (node, dep)) :: p.prevNodes.filter (·.1 != key) } }
  modify fun s => { s with perkeys := s.perkeys.modify op fun p => { p with prevMap := newMap } }

/-- what a `map_with_old` closure logs: user-written machines log one invocation; incremental-map operator
closures log (and may be interrupted at) each call of the user's function -/
def withOldEvents (env : Env) (g n : Nat) (σ : Val) (old : Option Val) (x new : Val) (did : Bool) : M Unit := do
  if g < opBase then
    tick
    logEv (.inv s!"g{g}" n ((match old with | some o => [o] | none => []) ++ [x]) s!"{new.render},{did}")
  else
    for (what, args, res) in env.withOldCalls g σ old x do
      tick
      logEv (.inv what n args res)

/-- `recompute_one` -/
def recomputeOne (env : Env) (fuel n : Nat) : M (Option Nat) := do
  if (← get).cfg.debug then modify fun s => { s with currentlyRunning := some n }
  bumpCounter fun c => { c with recomputed := c.recomputed + 1 }
  let now := (← get).stabNum
  modNode n fun x => { x with recomputedAt := now }
  let nd ← getNode n
  match nd.kind? with
  | none => panic "node:recompute_one:invalid-node"
  | some (.map f args) =>
    let vals ← args.mapM fun a => valueUnwrap env a "node:recompute_one:child-value"
    if f < fnZip then
      tick
      runEffects env fuel (env.fnEff f vals) ((vals.headD .unit).toInt)
      let v := env.fn f vals
      logEv (.inv s!"f{f}" n vals v.render)
      maybeChangeValue env fuel n v
    else if f ≥ fnPerKey then
      match vals.headD .unit with
      | .map m => perKeyDriver env fuel (f - fnPerKey) m
      | _ => perKeyDriver env fuel (f - fnPerKey) []
      maybeChangeValue env fuel n .unit
    else
      maybeChangeValue env fuel n (env.fn f vals)
  | some (.var c) =>
    let v := (← getVar c).value
    maybeChangeValue env fuel n v
  | some (.const v) => maybeChangeValue env fuel n v
  | some (.mapRef _ _) =>
    modNode n fun x => { x with value := none, didChange := false }     -- repaired D1
    maybeChangeValueManual env fuel n none nd.didChange false
  | some (.mapWithOld g i) =>
    let x ← valueUnwrap env i "node:recompute_one:child-value"
    let old := nd.value
    modNode n fun y => { y with value := none }
    let (σ', new, did) := env.withOld g nd.oldState old x
    withOldEvents env g n nd.oldState old x new did
    modNode n fun y => { y with value := some new, oldState := σ' }
    maybeChangeValueManual env fuel n none did true
  | some (.fold f init cs) =>
    let vals ← cs.mapM fun a => valueUnwrap env a "node:recompute_one:child-value"
    tick
    let v := vals.foldl (env.foldStep f) init
    logEv (.inv s!"fold{f}" n vals v.render)
    maybeChangeValue env fuel n v
  | some (.bindLhsChange b) =>
    let br ← getBind b
    let oldAll := br.allNodesCreatedOnRhs
    modBind b fun x => { x with allNodesCreatedOnRhs := [] }
    let lhsVal ← valueUnwrap env br.lhs "node:recompute_one:child-value"
    let oldScope := (← get).currentScope
    modify fun s => { s with currentScope := .bind b }
    tick
    let t := env.body br.body lhsVal
    logEv (.inv s!"b{br.body}" n [lhsVal] "")
    let rhs ← elabTemplate env t lhsVal
    modify fun s => { s with currentScope := oldScope }
    let oldRhs := br.rhs
    modBind b fun x => { x with rhs := some rhs }
    modNode n fun x => { x with changedAt := now }
    changeChildBindRhs env fuel br.main oldRhs rhs 1
    if oldRhs.isSome then
      for r in oldAll do invalidateNode fuel r
      propagateInvalidity fuel
    dassert (← getNode n).valid "node:recompute_one:lhs-change-valid"
    maybeChangeValue env fuel n .unit
  | some (.bindMain b _) =>
    match (← getBind b).rhs with
    | none => panic "node:recompute_one:bind-rhs-unwrap"
    | some r =>
      -- copy_child_bindrhs
      if (← getNode r).valid then
        match (← get).value env r with
        | none => pure none
        | some v => maybeChangeValue env fuel n v
      else
        invalidateNode fuel n
        propagateInvalidity fuel
        pure none
  | some (.expert e) =>
    -- before_main_computation
    if (← getExpert e).numInvalidChildren > 0 then
      invalidateNode fuel n
      propagateInvalidity fuel
      pure none
    else
      let fire := (← getExpert e).willFireAllCallbacks
      modExpert e fun x => { x with forceStale := false, willFireAllCallbacks := false }
      if fire then
        for edge in (← getExpert e).children do edgeOnChange env e edge
      let er ← getExpert e
      let s ← get
      let depVals := er.children.map fun edge => s.value env edge.child
      let slotVals := er.children.map fun edge =>
        match edge.cb with
        | some _ => er.slots.lookup edge.dep
        | none => none
      -- the closures of the per-key operators' own expert nodes live inside incremental-map: no hook
      if er.pk.isNone then tick
      let v ← expertValue env e depVals slotVals
      if er.pk.isNone then logEv (.inv s!"x{er.f}" n [] v.render)
      maybeChangeValue env fuel n v

/-- `recompute`: the direct-recompute chain -/
def recompute (env : Env) : Nat → Nat → M Unit
  | 0, _ => throw .outOfFuel
  | fuel+1, n => do
    match ← recomputeOne env fuel n with
    | none => pure ()
    | some p => recompute env fuel p

/-! ## stabilise -/

/-- `add_new_observers` -/
def addNewObservers (env : Env) (fuel : Nat) : M Unit := do
  let no := (← get).newObservers
  modify fun s => { s with newObservers := [] }
  for o in no do
    let ob ← getObs o
    match ob.state with
    | .inUse | .disallowed => panic "state:add_new_observers:state"
    | .unlinked => pure ()
    | .created =>
      modObs o fun x => { x with state := .inUse }
      let was := (← get).isNecessary ob.node
      modify fun s => { s with allObservers := s.allObservers ++ [o] }
      modNode ob.node fun x => { x with
        observers := x.observers ++ [o],
        numOnUpdateHandlers := x.numOnUpdateHandlers + ob.handlers.length }
      handleAfterStabilisation ob.node
      dassert ((← get).isNecessary ob.node) "state:add_new_observers:necessary"
      if !was then becameNecessaryPropagate env fuel ob.node

/-- `unlink_disallowed_observers` -/
def unlinkDisallowedObservers (fuel : Nat) : M Unit := do
  let ds := (← get).disallowedObservers
  modify fun s => { s with disallowedObservers := [] }
  for o in ds do
    let ob ← getObs o
    dassert (ob.state == .disallowed) "state:unlink_disallowed_observers:state"
    modObs o fun x => { x with state := .unlinked }
    modNode ob.node fun x => { x with
      observers := x.observers.filter (· != o),
      numOnUpdateHandlers := x.numOnUpdateHandlers - ob.handlers.length }
    modify fun s => { s with allObservers := s.allObservers.filter (· != o) }
    checkIfUnnecessary fuel ob.node

/-- `node_update` (repaired D4) -/
def State.nodeUpdate (env : Env) (s : State) (n : Nat) : NodeUpdate :=
  let nd := s.nodeD n
  if !nd.valid then .invalidated
  else if !nd.isNecessary then .unnecessary
  else if (s.value env n).isSome && nd.changedAt + 1 == s.stabNum then .changed
  else .necessary

/-- the 5×4 table of `OnUpdateHandler::run`: what (if anything) is delivered, new `previous_update_kind` -/
def handlerStep (prev : Previously) (nu : NodeUpdate) : Option NodeUpdate :=
  match prev, nu with
  | .invalidated, _ => none
  | .changed, .necessary => none
  | .necessary, .necessary => none
  | .unnecessary, .unnecessary => none
  | .neverBeenUpdated, .changed => some .necessary
  | .unnecessary, .changed => some .necessary
  | _, nu => some nu

def NodeUpdate.toPrev : NodeUpdate → Previously
  | .changed => .changed | .necessary => .necessary
  | .invalidated => .invalidated | .unnecessary => .unnecessary

/-- run the handlers of one observer (`run_all`) -/
def runAll (env : Env) (fuel : Nat) (o n : Nat) (nu : NodeUpdate) (now : Int) : M Unit := do
  let hs := (← getObs o).handlers
  for h in hs do
    match (← getObs o).state with
    | .created | .unlinked => panic "internal_observer:run_all:state"
    | .disallowed => pure ()
    | .inUse =>
      if h.createdAt < now then
        match handlerStep h.prev nu with
        | none => pure ()
        | some d =>
          modObs o fun x => { x with handlers := x.handlers.map fun h' =>
            if h'.token == h.token then { h' with prev := d.toPrev } else h' }
          let upd ← match d with
            | .changed => do pure (Update.changed (← valueUnwrap env n "node_update:value-unwrap"))
            | .necessary => do pure (Update.initialised (← valueUnwrap env n "node_update:value-unwrap"))
            | .invalidated => pure Update.invalidated
            | .unnecessary => panic "public:subscription-got-unnecessary"
          tick
          logEv (.notif h.token upd)
          runEffects env fuel (env.handler h.hid upd)

/-- `stabilise_end` -/
def stabiliseEnd (env : Env) (fuel : Nat) : M Unit := do
  modify fun s => { s with stabNum := s.stabNum + 1, currentlyRunning := none }
  -- set_during_stabilisation (stack)
  let stack := (← get).setDuringStab
  modify fun s => { s with setDuringStab := [] }
  for v in stack do
    match (← getVar v).pending with
    | none => pure ()
    | some x =>
      modVar v fun c => { c with pending := none, value := x }
      didSetVarWhileNotStabilising v
  -- dead_vars
  let dead := (← get).deadVars
  modify fun s => { s with deadVars := [] }
  for v in dead do modVar v fun c => { c with linked := false }
  -- handle_after_stabilisation
  let hs := (← get).handleAfterStab
  modify fun s => { s with handleAfterStab := [] }
  let mut queue : List (Nat × NodeUpdate) := []
  for n in hs do
    modNode n fun x => { x with inHandleAfterStab := false }
    queue := queue ++ [(n, (← get).nodeUpdate env n)]
  modify fun s => { s with status := .runningOnUpdateHandlers }
  let now := (← get).stabNum
  for (n, nu) in queue do
    for o in (← getNode n).observers do
      runAll env fuel o n nu now
  -- weak maps: `garbage_collect` drops the entries whose node has been freed
  modify fun s =>
    let alive := s.aliveSet
    { s with memos := s.memos.map fun (m, tbl) => (m, tbl.filter fun (_, n) => alive.contains n) }
  modify fun s => { s with status := .notStabilising }

def drainHeap (env : Env) : Nat → M Unit
  | 0 => throw .outOfFuel
  | fuel+1 => do
    match ← rchRemoveMin with
    | none => pure ()
    | some n =>
      recompute env fuel n
      drainHeap env fuel

/-- `stabilise` -/
def stabilise (env : Env) (fuel : Nat) : M Unit := do
  assertM ((← get).status == .notStabilising) "state:stabilise:status"
  modify fun s => { s with status := .stabilising }
  addNewObservers env fuel
  unlinkDisallowedObservers fuel
  drainHeap env fuel
  stabiliseEnd env fuel

/-- `State::set_max_height_allowed` (repaired D10: `N + 1` buckets in both heaps) -/
def setMaxHeightAllowed (newMax : Nat) : M Unit := do
  let s ← get
  if s.status == .stabilising then panic "state:set_max_height_allowed:during-stabilisation"
  -- adjust-heights heap
  if (newMax : Int) < s.maxHeightSeen then panic "adjust_heights_heap:set_max_height_allowed:below-max-seen"
  dassert (s.ahh.length == 0) "adjust_heights_heap:set_max_height_allowed:empty"
  let resize (q : Array (List Nat)) : Array (List Nat) :=
    if q.size ≥ newMax + 1 then q.extract 0 (newMax + 1)
    else q ++ Array.replicate (newMax + 1 - q.size) []
  modify fun s => { s with ahh := { s.ahh with queues := resize s.ahh.queues, lowerBound := (newMax : Int) + 1 } }
  -- recompute heap
  let s ← get
  dassert (((s.rch.queues.toList.drop (newMax + 1)).all (·.isEmpty))) "recompute_heap:set_max_height_allowed:dropped-buckets-empty"
  modify fun s =>
    let q := resize s.rch.queues
    { s with rch := { s.rch with queues := q, lowerBound := min s.rch.lowerBound ((q.size : Int) + 1) } }

def State.isStable (s : State) : Bool :=
  s.rch.length == 0 && s.deadVars.isEmpty && s.newObservers.isEmpty

end IncrVerif.Engine
