import IncrVerif.Engine.Recompute
import IncrVerif.Driver.Parse
/-!
# History language (shared with the Rust harness), definitions tables, `Env` built from them
-/
namespace IncrVerif.Engine
open IncrVerif.Driver

inductive OldKind where
  | sum (m : Int) | echo | flag (b : Bool)
deriving Repr, Inhabited

structure FnDef where
  m : Int := 7
  coeffs : List Int := []     -- c0, c1, c2, …  (missing = 1)
  effects : List Effect := []
deriving Repr, Inhabited

structure Defs where
  fns : List (Nat × FnDef) := []
  folds : List (Nat × (Int × Int × Int × Int)) := []   -- m a b c
  projs : List (Nat × String) := []
  olds : List (Nat × OldKind) := []
  cuts : List (Nat × Int) := []
  bodies : List (Nat × (Nat × List Template)) := []
  hdls : List (Nat × List Effect) := []
  mfns : List (Nat × List Int) := []          -- a b m r c
  memoDefs : List (Nat × Template) := []
  pks : List (Nat × Template) := []
deriving Repr, Inhabited

def emod (a m : Int) : Int := if m ≤ 0 then a else Int.emod a m

/-! ### incremental-map operators as `map_with_old` closures (ids from `opBase`) -/

open IncrVerif.MapOps in
structure OpParams where
  a : Int := 1
  b : Int := 0
  m : Int := 2
  r : Int := 9
  c : Int := 0
deriving Inhabited

def Defs.opParams (d : Defs) (m : Nat) : OpParams :=
  match d.mfns.lookup m with
  | some [a, b, mm, r, c] => { a := a, b := b, m := mm, r := r, c := c }
  | _ => {}

def opFmFn (p : OpParams) (k v : Int) : Option Int :=
  if emod (k + v) p.m == p.r then none else some (emod (p.a * v + p.b * k) 7)
def opG (p : OpParams) (k v : Int) : Int := p.a * v + p.b * k
def opMergeFn (p : OpParams) (_k : Int) (e : IncrVerif.MapOps.MergeArg) : Option Int :=
  match e with
  | .left x => some x
  | .right y => some (emod (2 * y) 7)
  | .both x y => if emod (x + y) p.m == p.r then none else some (emod (x + y) 7)
def opPartFn (p : OpParams) (k v : Int) : IncrVerif.MapOps.Either :=
  if emod (k + v) p.m == p.r then .left v else .right (emod (v + 1) 7)

inductive OpKind where
  | fm | fold (rev upd : Bool) | merge | part
deriving Inhabited

def decodeOp (g : Nat) : OpKind × Nat :=
  let k := g - opBase
  let kind := k / 100000
  let rest := k % 100000
  if kind == 0 then (.fm, rest)
  else if kind == 1 then (.fold (rest ≥ 20000) (rest % 20000 ≥ 10000), rest % 10000)
  else if kind == 2 then (.merge, rest)
  else (.part, rest)

def asMap (v : Val) : List (Int × Int) := match v with | .map m => m | _ => []
def optVal (o : Option Int) : Val := match o with | some i => .int i | none => .unit
def optStr (o : Option Int) : String := match o with | some i => toString i | none => "()"

def opUFold (p : OpParams) (upd : Bool) (rev : Bool) : IncrVerif.MapOps.UFold Int :=
  if upd then
    { add := fun acc k v => acc + opG p k v, remove := fun acc k v => acc - opG p k v,
      update := fun acc k o n => acc - opG p k o + opG p k n, revertToInitWhenEmpty := rev }
  else IncrVerif.MapOps.UFold.plain (fun acc k v => acc + opG p k v) (fun acc k v => acc - opG p k v) rev

/-- (σ', new value, did_change) of an operator closure -/
def opWithOld (d : Defs) (g : Nat) (σ : Val) (old : Option Val) (x : Val) : Val × Val × Bool :=
  let (kind, m) := decodeOp g
  let p := d.opParams m
  match kind with
  | .fm =>
    let oldPair := match σ, old with
      | .map oi, some (.map oo) => some (oi, oo)
      | _, _ => none
    let r := IncrVerif.MapOps.filterMapiStep (opFmFn p) oldPair (asMap x)
    (x, .map r.1, r.2.1)
  | .fold rev upd =>
    let oldPair := match σ, old with
      | .map oi, some (.int oo) => some (oi, oo)
      | _, _ => none
    let r := IncrVerif.MapOps.ufoldStep (opUFold p upd rev) p.c oldPair (asMap x)
    (x, .int r.1, r.2.1)
  | .merge =>
    let (nl, nr) := match x with | .pair a b => (asMap a, asMap b) | _ => ([], [])
    let oldT := match σ, old with
      | .pair ol orr, some (.map oo) => some (asMap ol, asMap orr, oo)
      | _, _ => none
    let r := IncrVerif.MapOps.mergeStep (opMergeFn p) oldT nl nr
    (x, .map r.1, r.2.1)
  | .part =>
    let oldPair := match σ, old with
      | .map oi, some (.pair (.map l) (.map rr)) => some (oi, (l, rr))
      | _, _ => none
    let r := IncrVerif.MapOps.ufoldStep (IncrVerif.MapOps.partitionUFold (opPartFn p)) ([], []) oldPair (asMap x)
    (x, .pair (.map r.1.1) (.map r.1.2), r.2.1)

/-- the user-function calls of one operator step, as logged by the harness -/
def opCalls (d : Defs) (g : Nat) (σ : Val) (old : Option Val) (x : Val) : List (String × List Val × String) :=
  let (kind, m) := decodeOp g
  let p := d.opParams m
  let name (role : String) := s!"M{m}.{role}"
  match kind with
  | .fm =>
    let oldPair := match σ, old with
      | .map oi, some (.map oo) => some (oi, oo)
      | _, _ => none
    let r := IncrVerif.MapOps.filterMapiStep (opFmFn p) oldPair (asMap x)
    r.2.2.map fun (_, k) =>
      let v := ((IncrVerif.AMap.lookup (asMap x) k).getD 0)
      (name "fn", [.int k, .int v], optStr (opFmFn p k v))
  | .fold rev upd =>
    let oldPair := match σ, old with
      | .map oi, some (.int oo) => some (oi, oo)
      | _, _ => none
    let input := asMap x
    let r := IncrVerif.MapOps.ufoldStep (opUFold p upd rev) p.c oldPair input
    let oldIn := (oldPair.map (·.1)).getD []
    let start : Int := match oldPair with | some (_, oo) => oo | none => p.c
    let step (acc : Int × List (String × List Val × String)) (c : IncrVerif.MapOps.Call) :=
      let (a, evs) := acc
      let k := c.2
      let nv := (IncrVerif.AMap.lookup input k).getD 0
      let ov := (IncrVerif.AMap.lookup oldIn k).getD 0
      match c.1 with
      | .add => let a' := a + opG p k nv; (a', evs ++ [(name "add", [.int k, .int nv], toString a')])
      | .remove => let a' := a - opG p k ov; (a', evs ++ [(name "remove", [.int k, .int ov], toString a')])
      | .update =>
        if upd then
          let a' := a - opG p k ov + opG p k nv
          (a', evs ++ [(name "update", [.int k, .int ov, .int nv], toString a')])
        else
          let a1 := a - opG p k ov
          let a2 := a1 + opG p k nv
          (a2, evs ++ [(name "remove", [.int k, .int ov], toString a1), (name "add", [.int k, .int nv], toString a2)])
      | _ => (a, evs)
    (r.2.2.foldl step (start, [])).2
  | .merge =>
    let (nl, nr) := match x with | .pair a b => (asMap a, asMap b) | _ => ([], [])
    let oldT := match σ, old with
      | .pair ol orr, some (.map oo) => some (asMap ol, asMap orr, oo)
      | _, _ => none
    let r := IncrVerif.MapOps.mergeStep (opMergeFn p) oldT nl nr
    r.2.2.map fun (_, k) =>
      let l := IncrVerif.AMap.lookup nl k
      let rr := IncrVerif.AMap.lookup nr k
      let e : IncrVerif.MapOps.MergeArg := match l, rr with
        | some a, some b => .both a b
        | some a, none => .left a
        | none, some b => .right b
        | none, none => .left 0
      (name "merge", [.int k, optVal l, optVal rr], optStr (opMergeFn p k e))
  | .part =>
    let oldPair := match σ, old with
      | .map oi, some (.pair (.map l) (.map rr)) => some (oi, (l, rr))
      | _, _ => none
    let input := asMap x
    let r := IncrVerif.MapOps.ufoldStep (IncrVerif.MapOps.partitionUFold (opPartFn p)) ([], []) oldPair input
    r.2.2.filterMap fun (role, k) =>
      if role == .remove then none
      else
        let v := (IncrVerif.AMap.lookup input k).getD 0
        some (name "fn", [.int k, .int v], match opPartFn p k v with | .left a => s!"L{a}" | .right b => s!"R{b}")

def Defs.toEnv (d : Defs) : Env where
  fn := fun f args =>
    if f == fnZip then
      match args with
      | [a, b] => .pair a b
      | _ => .unit
    else if f == fnFirst then args.headD .unit
    else if f == fnIdent then args.headD .unit
    else match d.fns.lookup f with
      | none => .int 0
      | some fd =>
        let c0 := fd.coeffs.headD 0
        let cs := fd.coeffs.drop 1
        let rec go : List Val → List Int → Int → Int
          | [], _, acc => acc
          | a :: as, [], acc => go as [] (acc + a.toInt)
          | a :: as, c :: cs, acc => go as cs (acc + c * a.toInt)
        .int (emod (go args cs c0) fd.m)
  fnEff := fun f _ => match d.fns.lookup f with
    | some fd => fd.effects
    | none => []
  foldStep := fun f acc x => match d.folds.lookup f with
    | some (m, a, b, c) => .int (emod (a * acc.toInt + b * x.toInt + c) m)
    | none => acc
  proj := fun p v => match d.projs.lookup p with
    | some "fst" => (match v with | .pair a _ => a | o => o)
    | some "snd" => (match v with | .pair _ b => b | o => o)
    | _ => v
  withOld := fun g σ old x => if g ≥ opBase then opWithOld d g σ old x else match d.olds.lookup g with
    | some (.sum m) =>
      let new := Val.int (emod ((match old with | some o => o.toInt | none => 0) + x.toInt) m)
      (σ, new, old != some new)
    | some .echo => (σ, x, old != some x)
    | some (.flag b) => (σ, x, b)
    | none => (σ, x, true)
  cutoff := fun c a b => match d.cuts.lookup c with
    | some m => emod a.toInt m == emod b.toInt m
    | none => a == b
  body := fun b lhs => match d.bodies.lookup b with
    | some (k, alts) =>
      let i := (emod lhs.toInt (k : Int)).toNat
      alts[i]?.getD { instrs := [], ret := .outer 0 }
    | none => { instrs := [], ret := .outer 0 }
  handler := fun h _ => (d.hdls.lookup h).getD []
  withOldCalls := fun g σ old x => if g ≥ opBase then opCalls d g σ old x else []
  memo := fun m => (d.memoDefs.lookup m).getD { instrs := [], ret := .abs 0 }
  perKey := fun f => (d.pks.lookup f).getD { instrs := [], ret := .loc 0 }
  expertFn := fun f deps slots =>
    -- f = 10*m + kind: kind 0 = sum of the dependencies' values, kind 1 = sum of what the callbacks stored
    let m : Int := f / 10
    let un (o : Option Val) : Int := match o with | some v => v.toInt | none => 100
    if f % 10 == 0 then .int (emod (deps.foldl (fun a o => a + un o) 0) m)
    else .int (emod ((slots.zip deps).foldl (fun a (so : Option Val × Option Val) =>
      a + (match so.1 with | some v => v.toInt | none => 0)) 0) m)

/-! ## parsing -/

def parseIdx (pfx : String) (s : String) : Option Nat :=
  let s := trim s
  if s.startsWith pfx then (s.drop pfx.length).toString.toNat? else none

def parseOpnd (s : String) : Option Opnd :=
  let s := trim s
  if s.startsWith "%" then (.loc ·) <$> (s.drop 1).toString.toNat?
  else if s.startsWith "n" then (.outer ·) <$> (s.drop 1).toString.toNat?
  else if s.startsWith "#" then (.abs ·) <$> (s.drop 1).toString.toNat?
  else if s.startsWith "@s" then (.slot ·) <$> (s.drop 2).toString.toNat?
  else none

/-- a map literal is a map: keys sorted, the last binding of a key wins (what `collect::<BTreeMap>` does) -/
def canonPairs (l : List (Int × Int)) : List (Int × Int) :=
  let ins (acc : List (Int × Int)) (kv : Int × Int) : List (Int × Int) :=
    (acc.filter fun x => x.1 < kv.1) ++ [kv] ++ (acc.filter fun x => kv.1 < x.1)
  l.foldl ins []

/-- values: integers, `()`, `(a,b)` of integers, `{k:v,…}` -/
def parseVal (s : String) : Option Val :=
  let s := trim s
  if s == "()" then some .unit
  else if s.startsWith "{" && s.endsWith "}" then
    (fun l => .map (canonPairs l)) <$> parsePairs ((s.drop 1).dropEnd 1).toString
  else if s.startsWith "(" && s.endsWith ")" then
    match (((s.drop 1).dropEnd 1).toString).splitOn "," with
    | [a, b] => do pure (.pair (.int (← parseInt? a)) (.int (← parseInt? b)))
    | _ => none
  else (.int ·) <$> parseInt? s

def parseCutoff : List String → Option CutoffK
  | ["never"] => some .never
  | ["always"] => some .always
  | ["eq"] => some .eq
  | ["fn", c] => (.fn ·) <$> parseIdx "c" c
  | ["boxed", c] => (.boxed ·) <$> parseIdx "c" c
  | _ => none

def parseInstr (toks : List String) : Option Instr :=
  match toks with
  | ["const", x] => (.const ·) <$> parseVal x
  | ["lhsconst"] => some .lhsConst
  | ["var", x] => (.var ·) <$> parseVal x
  | "map" :: f :: args => do pure (.map (← parseIdx "f" f) (← args.mapM parseOpnd))
  | "fold" :: f :: init :: cs => do pure (.fold (← parseIdx "fold" f) (← parseVal init) (← cs.mapM parseOpnd))
  | ["mapref", p, i] => do pure (.mapRef (← parseIdx "p" p) (← parseOpnd i))
  | ["mapold", g, i] => do pure (.mapWithOld (← parseIdx "g" g) (← parseOpnd i))
  | ["bind", b, l] => do pure (.bind (← parseIdx "b" b) (← parseOpnd l))
  | ["zip", a, b] => do pure (.zip (← parseOpnd a) (← parseOpnd b))
  | ["dependon", a, b] => do pure (.dependOn (← parseOpnd a) (← parseOpnd b))
  | "cutoff" :: n :: c => do pure (.cutoff (← parseOpnd n) (← parseCutoff c))
  | ["pub", sl, o] => do pure (.publish (← parseIdx "s" sl) (← parseOpnd o))
  | ["scopedvar", x] => (.scopedVar ·) <$> parseVal x
  | ["memocall", m, k] => do pure (.memoCall (← parseIdx "m" m) (← parseInt? k))
  | ["mapop", "fm", _, m, x] => do pure (.mapOp (.fm (← parseIdx "M" m) (← parseOpnd x)))
  | ["mapop", "fold", _, m, rev, upd, x] => do
    pure (.mapOp (.fold (← parseIdx "M" m) (rev == "1") (upd == "1") (← parseOpnd x)))
  | ["mapop", "merge", _, m, x, y] => do pure (.mapOp (.merge (← parseIdx "M" m) (← parseOpnd x) (← parseOpnd y)))
  | ["mapop", "part", m, x] => do pure (.mapOp (.part (← parseIdx "M" m) (← parseOpnd x)))
  | ["perkey", _, cut, fam, x] => do
    let c : Option CutoffK := match cut with
      | "never" => some .never | "always" => some .always | "eq" => some .eq | _ => none
    pure (.perKey c (← parseIdx "P" fam) (← parseOpnd x))
  | ["expert", "sumdeps", m] => do pure (.expert ((← m.toNat?) * 10))
  | ["expert", "cbsum", m] => do pure (.expert ((← m.toNat?) * 10 + 1))
  | _ => none

def parseEffect (toks : List String) : Option Effect :=
  match toks with
  | ["dropvar", v] => do pure (.dropVar (← parseIdx "v" v))
  | ["setvar", v, x] => do pure (.setVar (← parseIdx "v" v) (← parseVal x))
  | ["modvar", v, d] => do pure (.modifyVar (← parseIdx "v" v) (← parseInt? d))
  | ["updvar", v, d] => do pure (.updateVar (← parseIdx "v" v) (← parseInt? d))
  | ["replvar", v, x] => do pure (.replaceVar (← parseIdx "v" v) (← parseVal x))
  | ["replwvar", v, d] => do pure (.replaceWithVar (← parseIdx "v" v) (← parseInt? d))
  | ["readobs", o] => do pure (.readObs (← parseIdx "o" o))
  | ["stab"] => some .stabilise
  | ["panic"] => some .panic
  | ["disallow", o] => do pure (.disallow (← parseIdx "o" o))
  | ["unsub", o, t] => do pure (.unsubscribe (← parseIdx "o" o) (← parseIdx "t" t))
  | ["sub", o, h] => do pure (.subscribe (← parseIdx "o" o) (← parseIdx "h" h))
  | ["xadd", e, c, cb] => do pure (.xAdd (← parseOpnd e) (← parseOpnd c) (cb == "cb"))
  | ["xrm", e, i] => do pure (.xRm (← parseOpnd e) (← i.toNat?))
  | "xsel" :: e :: cb :: always :: ts => do
    pure (.xSel (← parseOpnd e) (cb == "cb") (always == "always") (← ts.mapM parseOpnd))
  | ["xstale", e] => do pure (.xStale (← parseOpnd e))
  | ["xinval", e] => do pure (.xInval (← parseOpnd e))
  | _ => none

def words (s : String) : List String := (s.splitOn " ").filter (· != "")

def parseEffects (s : String) : Option (List Effect) :=
  ((s.splitOn ";").filter (fun x => !(trim x).isEmpty)).mapM fun e => parseEffect (words e)

def parseAlt (s : String) : Option Template := do
  let parts := (s.splitOn ";").map words |>.filter (· != [])
  let mut instrs : List Instr := []
  let mut ret : Option Opnd := none
  for p in parts do
    match p with
    | ["ret", o] => ret := some (← parseOpnd o)
    | toks => instrs := instrs ++ [← parseInstr toks]
  pure { instrs := instrs, ret := ← ret }

inductive Action where
  | create (i : Instr)
  | observe (n : Opnd)
  | cloneObs (o : Nat)
  | dropObs (o : Nat)
  | disallow (o : Nat)
  | subscribe (o h : Nat)
  | unsubscribe (o t : Nat)
  | stateUnsub (t : Nat)
  | set (v : Nat) (x : Val)
  | modify (v : Nat) (d : Int)
  | update (v : Nat) (d : Int)
  | replace (v : Nat) (x : Val)
  | replaceWith (v : Nat) (d : Int)
  | get (v : Nat)
  | dropVar (v : Nat)
  | addDep (e child : Opnd) (cb : Bool)
  | arm (k : Nat)
  | dropAll
  | dropHandle (n : Opnd)
  | expectPanic (classes : List String)
  | setMaxHeight (n : Nat)
  | stabilise
  | isStable
  | stats
  | bad (line : String)
deriving Repr, Inhabited

structure History where
  debug : Bool := true
  maxHeight : Nat := 128
  defs : Defs := {}
  actions : List Action := []
deriving Repr, Inhabited

def parseAction (toks : List String) : Option Action :=
  match toks with
  | ["observe", n] => (.observe ·) <$> parseOpnd n
  | ["cloneobs", o] => (.cloneObs ·) <$> parseIdx "o" o
  | ["dropobs", o] => (.dropObs ·) <$> parseIdx "o" o
  | ["disallow", o] => (.disallow ·) <$> parseIdx "o" o
  | ["subscribe", o, h] => do pure (.subscribe (← parseIdx "o" o) (← parseIdx "h" h))
  | ["unsubscribe", o, t] => do pure (.unsubscribe (← parseIdx "o" o) (← parseIdx "t" t))
  | ["stateunsub", t] => (.stateUnsub ·) <$> parseIdx "t" t
  | ["set", v, x] => do pure (.set (← parseIdx "v" v) (← parseVal x))
  | ["modify", v, d] => do pure (.modify (← parseIdx "v" v) (← parseInt? d))
  | ["update", v, d] => do pure (.update (← parseIdx "v" v) (← parseInt? d))
  | ["replace", v, x] => do pure (.replace (← parseIdx "v" v) (← parseVal x))
  | ["replacewith", v, d] => do pure (.replaceWith (← parseIdx "v" v) (← parseInt? d))
  | ["get", v] => (.get ·) <$> parseIdx "v" v
  | ["dropvar", v] => (.dropVar ·) <$> parseIdx "v" v
  | ["adddep", e, c, cb] => do pure (.addDep (← parseOpnd e) (← parseOpnd c) (cb == "cb"))
  | ["arm", k] => (.arm ·) <$> k.toNat?
  | ["dropall"] => some .dropAll
  | ["drophandle", n] => (.dropHandle ·) <$> parseOpnd n
  | "expectpanic" :: cls => some (.expectPanic cls)
  | ["setmaxheight", k] => (.setMaxHeight ·) <$> k.toNat?
  | ["stabilise"] => some .stabilise
  | ["isstable"] => some .isStable
  | ["stats"] => some .stats
  | toks => (.create ·) <$> parseInstr toks

def parseLine (h : History) (line : String) : History :=
  let line := trim line
  if line.isEmpty || line.startsWith "# " || line == "#" then h
  else
    let toks := words line
    let bad := { h with actions := h.actions ++ [.bad line] }
    match toks with
    | ["cfg", "debug"] => { h with debug := true }
    | ["cfg", "release"] => { h with debug := false }
    | ["maxheight", n] => match n.toNat? with
      | some n => { h with maxHeight := n }
      | none => bad
    | "fn" :: f :: "lin" :: m :: cs =>
      match parseIdx "f" f, parseInt? m, cs.mapM parseInt? with
      | some f, some m, some cs =>
        { h with defs := { h.defs with fns := (f, { m := m, coeffs := cs }) :: h.defs.fns } }
      | _, _, _ => bad
    | "fneff" :: f :: rest =>
      match parseIdx "f" f, parseEffects (joinWith " " rest) with
      | some f, some effs =>
        let old := (h.defs.fns.lookup f).getD {}
        { h with defs := { h.defs with fns := (f, { old with effects := old.effects ++ effs }) :: h.defs.fns } }
      | _, _ => bad
    | ["folddef", f, m, a, b, c] =>
      match parseIdx "fold" f, parseInt? m, parseInt? a, parseInt? b, parseInt? c with
      | some f, some m, some a, some b, some c =>
        { h with defs := { h.defs with folds := (f, (m, a, b, c)) :: h.defs.folds } }
      | _, _, _, _, _ => bad
    | ["proj", p, k] =>
      match parseIdx "p" p with
      | some p => { h with defs := { h.defs with projs := (p, k) :: h.defs.projs } }
      | none => bad
    | "old" :: g :: k =>
      match parseIdx "g" g, k with
      | some g, ["sum", m] => match parseInt? m with
        | some m => { h with defs := { h.defs with olds := (g, .sum m) :: h.defs.olds } }
        | none => bad
      | some g, ["echo"] => { h with defs := { h.defs with olds := (g, .echo) :: h.defs.olds } }
      | some g, ["flag", b] => { h with defs := { h.defs with olds := (g, .flag (b == "1")) :: h.defs.olds } }
      | _, _ => bad
    | ["cut", c, "eqmod", m] =>
      match parseIdx "c" c, parseInt? m with
      | some c, some m => { h with defs := { h.defs with cuts := (c, m) :: h.defs.cuts } }
      | _, _ => bad
    | "body" :: b :: k :: rest =>
      match parseIdx "b" b, k.toNat?, ((joinWith " " rest).splitOn "|").mapM parseAlt with
      | some b, some k, some alts =>
        { h with defs := { h.defs with bodies := (b, (k, alts)) :: h.defs.bodies } }
      | _, _, _ => bad
    | ["mfn", m, a, b, mm, r, c] =>
      match parseIdx "M" m, [a, b, mm, r, c].mapM parseInt? with
      | some m, some ps => { h with defs := { h.defs with mfns := (m, ps) :: h.defs.mfns } }
      | _, _ => bad
    | "memo" :: m :: rest =>
      match parseIdx "m" m, parseAlt (joinWith " " rest) with
      | some m, some t => { h with defs := { h.defs with memoDefs := (m, t) :: h.defs.memoDefs } }
      | _, _ => bad
    | "pk" :: pk :: rest =>
      match parseIdx "P" pk, parseAlt (joinWith " " rest) with
      | some pk, some t => { h with defs := { h.defs with pks := (pk, t) :: h.defs.pks } }
      | _, _ => bad
    | "hdl" :: hid :: rest =>
      match parseIdx "h" hid, parseEffects (joinWith " " rest) with
      | some hid, some effs => { h with defs := { h.defs with hdls := (hid, effs) :: h.defs.hdls } }
      | _, _ => bad
    | toks => match parseAction toks with
      | some a => { h with actions := h.actions ++ [a] }
      | none => bad

def parseHistory (text : String) : History :=
  (text.splitOn "\n").foldl parseLine {}

end IncrVerif.Engine
