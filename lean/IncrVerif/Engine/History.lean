import IncrVerif.Engine.Recompute
import IncrVerif.Driver.Parse
/-!
# History language (shared with the Rust harness), definitions tables, `Env` built from them
-/
namespace IncrVerif.Engine
open IncrVerif.Driver

inductive OldKind where
  | sum (m : Int) | echo | flag (b : Bool)
deriving Repr, Inhabited

structure FnDef where
  m : Int := 7
  coeffs : List Int := []     -- c0, c1, c2, …  (missing = 1)
  effects : List Effect := []
deriving Repr, Inhabited

structure Defs where
  fns : List (Nat × FnDef) := []
  folds : List (Nat × (Int × Int × Int × Int)) := []   -- m a b c
  projs : List (Nat × String) := []
  olds : List (Nat × OldKind) := []
  cuts : List (Nat × Int) := []
  bodies : List (Nat × (Nat × List Template)) := []
  hdls : List (Nat × List Effect) := []
deriving Repr, Inhabited

def emod (a m : Int) : Int := if m ≤ 0 then a else Int.emod a m

def Defs.toEnv (d : Defs) : Env where
  fn := fun f args =>
    if f == fnZip then
      match args with
      | [a, b] => .pair a b
      | _ => .unit
    else if f == fnFirst then args.headD .unit
    else match d.fns.lookup f with
      | none => .int 0
      | some fd =>
        let c0 := fd.coeffs.headD 0
        let cs := fd.coeffs.drop 1
        let rec go : List Val → List Int → Int → Int
          | [], _, acc => acc
          | a :: as, [], acc => go as [] (acc + a.toInt)
          | a :: as, c :: cs, acc => go as cs (acc + c * a.toInt)
        .int (emod (go args cs c0) fd.m)
  fnEff := fun f _ => match d.fns.lookup f with
    | some fd => fd.effects
    | none => []
  foldStep := fun f acc x => match d.folds.lookup f with
    | some (m, a, b, c) => .int (emod (a * acc.toInt + b * x.toInt + c) m)
    | none => acc
  proj := fun p v => match d.projs.lookup p with
    | some "fst" => (match v with | .pair a _ => a | o => o)
    | some "snd" => (match v with | .pair _ b => b | o => o)
    | _ => v
  withOld := fun g σ old x => match d.olds.lookup g with
    | some (.sum m) =>
      let new := Val.int (emod ((match old with | some o => o.toInt | none => 0) + x.toInt) m)
      (σ, new, old != some new)
    | some .echo => (σ, x, old != some x)
    | some (.flag b) => (σ, x, b)
    | none => (σ, x, true)
  cutoff := fun c a b => match d.cuts.lookup c with
    | some m => emod a.toInt m == emod b.toInt m
    | none => a == b
  body := fun b lhs => match d.bodies.lookup b with
    | some (k, alts) =>
      let i := (emod lhs.toInt (k : Int)).toNat
      alts[i]?.getD { instrs := [], ret := .outer 0 }
    | none => { instrs := [], ret := .outer 0 }
  handler := fun h _ => (d.hdls.lookup h).getD []
  expertFn := fun f deps slots =>
    -- f = 10*m + kind: kind 0 = sum of the dependencies' values, kind 1 = sum of what the callbacks stored
    let m : Int := f / 10
    let un (o : Option Val) : Int := match o with | some v => v.toInt | none => 100
    if f % 10 == 0 then .int (emod (deps.foldl (fun a o => a + un o) 0) m)
    else .int (emod ((slots.zip deps).foldl (fun a (so : Option Val × Option Val) =>
      a + (match so.1 with | some v => v.toInt | none => 0)) 0) m)

/-! ## parsing -/

def parseIdx (pfx : String) (s : String) : Option Nat :=
  let s := trim s
  if s.startsWith pfx then (s.drop pfx.length).toString.toNat? else none

def parseOpnd (s : String) : Option Opnd :=
  let s := trim s
  if s.startsWith "%" then (.loc ·) <$> (s.drop 1).toString.toNat?
  else if s.startsWith "n" then (.outer ·) <$> (s.drop 1).toString.toNat?
  else if s.startsWith "#" then (.abs ·) <$> (s.drop 1).toString.toNat?
  else none

/-- values: integers, `()`, `(a,b)` of integers, `{k:v,…}` -/
def parseVal (s : String) : Option Val :=
  let s := trim s
  if s == "()" then some .unit
  else if s.startsWith "{" && s.endsWith "}" then
    (.map ·) <$> parsePairs ((s.drop 1).dropEnd 1).toString
  else if s.startsWith "(" && s.endsWith ")" then
    match (((s.drop 1).dropEnd 1).toString).splitOn "," with
    | [a, b] => do pure (.pair (.int (← parseInt? a)) (.int (← parseInt? b)))
    | _ => none
  else (.int ·) <$> parseInt? s

def parseCutoff : List String → Option CutoffK
  | ["never"] => some .never
  | ["always"] => some .always
  | ["eq"] => some .eq
  | ["fn", c] => (.fn ·) <$> parseIdx "c" c
  | ["boxed", c] => (.boxed ·) <$> parseIdx "c" c
  | _ => none

def parseInstr (toks : List String) : Option Instr :=
  match toks with
  | ["const", x] => (.const ·) <$> parseVal x
  | ["lhsconst"] => some .lhsConst
  | ["var", x] => (.var ·) <$> parseVal x
  | "map" :: f :: args => do pure (.map (← parseIdx "f" f) (← args.mapM parseOpnd))
  | "fold" :: f :: init :: cs => do pure (.fold (← parseIdx "fold" f) (← parseVal init) (← cs.mapM parseOpnd))
  | ["mapref", p, i] => do pure (.mapRef (← parseIdx "p" p) (← parseOpnd i))
  | ["mapold", g, i] => do pure (.mapWithOld (← parseIdx "g" g) (← parseOpnd i))
  | ["bind", b, l] => do pure (.bind (← parseIdx "b" b) (← parseOpnd l))
  | ["zip", a, b] => do pure (.zip (← parseOpnd a) (← parseOpnd b))
  | ["dependon", a, b] => do pure (.dependOn (← parseOpnd a) (← parseOpnd b))
  | "cutoff" :: n :: c => do pure (.cutoff (← parseOpnd n) (← parseCutoff c))
  | ["expert", "sumdeps", m] => do pure (.expert ((← m.toNat?) * 10))
  | ["expert", "cbsum", m] => do pure (.expert ((← m.toNat?) * 10 + 1))
  | _ => none

def parseEffect (toks : List String) : Option Effect :=
  match toks with
  | ["setvar", v, x] => do pure (.setVar (← parseIdx "v" v) (← parseVal x))
  | ["modvar", v, d] => do pure (.modifyVar (← parseIdx "v" v) (← parseInt? d))
  | ["updvar", v, d] => do pure (.updateVar (← parseIdx "v" v) (← parseInt? d))
  | ["replvar", v, x] => do pure (.replaceVar (← parseIdx "v" v) (← parseVal x))
  | ["replwvar", v, d] => do pure (.replaceWithVar (← parseIdx "v" v) (← parseInt? d))
  | ["readobs", o] => do pure (.readObs (← parseIdx "o" o))
  | ["stab"] => some .stabilise
  | ["panic"] => some .panic
  | ["disallow", o] => do pure (.disallow (← parseIdx "o" o))
  | ["unsub", o, t] => do pure (.unsubscribe (← parseIdx "o" o) (← parseIdx "t" t))
  | ["sub", o, h] => do pure (.subscribe (← parseIdx "o" o) (← parseIdx "h" h))
  | ["xadd", e, c, cb] => do pure (.xAdd (← parseOpnd e) (← parseOpnd c) (cb == "cb"))
  | ["xrm", e, i] => do pure (.xRm (← parseOpnd e) (← i.toNat?))
  | "xsel" :: e :: cb :: always :: ts => do
    pure (.xSel (← parseOpnd e) (cb == "cb") (always == "always") (← ts.mapM parseOpnd))
  | ["xstale", e] => do pure (.xStale (← parseOpnd e))
  | ["xinval", e] => do pure (.xInval (← parseOpnd e))
  | _ => none

def words (s : String) : List String := (s.splitOn " ").filter (· != "")

def parseEffects (s : String) : Option (List Effect) :=
  ((s.splitOn ";").filter (fun x => !(trim x).isEmpty)).mapM fun e => parseEffect (words e)

def parseAlt (s : String) : Option Template := do
  let parts := (s.splitOn ";").map words |>.filter (· != [])
  let mut instrs : List Instr := []
  let mut ret : Option Opnd := none
  for p in parts do
    match p with
    | ["ret", o] => ret := some (← parseOpnd o)
    | toks => instrs := instrs ++ [← parseInstr toks]
  pure { instrs := instrs, ret := ← ret }

inductive Action where
  | create (i : Instr)
  | observe (n : Opnd)
  | cloneObs (o : Nat)
  | dropObs (o : Nat)
  | disallow (o : Nat)
  | subscribe (o h : Nat)
  | unsubscribe (o t : Nat)
  | stateUnsub (t : Nat)
  | set (v : Nat) (x : Val)
  | modify (v : Nat) (d : Int)
  | update (v : Nat) (d : Int)
  | replace (v : Nat) (x : Val)
  | replaceWith (v : Nat) (d : Int)
  | get (v : Nat)
  | dropVar (v : Nat)
  | addDep (e child : Opnd) (cb : Bool)
  | arm (k : Nat)
  | dropAll
  | expectPanic (classes : List String)
  | setMaxHeight (n : Nat)
  | stabilise
  | isStable
  | stats
  | bad (line : String)
deriving Repr, Inhabited

structure History where
  debug : Bool := true
  maxHeight : Nat := 128
  defs : Defs := {}
  actions : List Action := []
deriving Repr, Inhabited

def parseAction (toks : List String) : Option Action :=
  match toks with
  | ["observe", n] => (.observe ·) <$> parseOpnd n
  | ["cloneobs", o] => (.cloneObs ·) <$> parseIdx "o" o
  | ["dropobs", o] => (.dropObs ·) <$> parseIdx "o" o
  | ["disallow", o] => (.disallow ·) <$> parseIdx "o" o
  | ["subscribe", o, h] => do pure (.subscribe (← parseIdx "o" o) (← parseIdx "h" h))
  | ["unsubscribe", o, t] => do pure (.unsubscribe (← parseIdx "o" o) (← parseIdx "t" t))
  | ["stateunsub", t] => (.stateUnsub ·) <$> parseIdx "t" t
  | ["set", v, x] => do pure (.set (← parseIdx "v" v) (← parseVal x))
  | ["modify", v, d] => do pure (.modify (← parseIdx "v" v) (← parseInt? d))
  | ["update", v, d] => do pure (.update (← parseIdx "v" v) (← parseInt? d))
  | ["replace", v, x] => do pure (.replace (← parseIdx "v" v) (← parseVal x))
  | ["replacewith", v, d] => do pure (.replaceWith (← parseIdx "v" v) (← parseInt? d))
  | ["get", v] => (.get ·) <$> parseIdx "v" v
  | ["dropvar", v] => (.dropVar ·) <$> parseIdx "v" v
  | ["adddep", e, c, cb] => do pure (.addDep (← parseOpnd e) (← parseOpnd c) (cb == "cb"))
  | ["arm", k] => (.arm ·) <$> k.toNat?
  | ["dropall"] => some .dropAll
  | "expectpanic" :: cls => some (.expectPanic cls)
  | ["setmaxheight", k] => (.setMaxHeight ·) <$> k.toNat?
  | ["stabilise"] => some .stabilise
  | ["isstable"] => some .isStable
  | ["stats"] => some .stats
  | toks => (.create ·) <$> parseInstr toks

def parseLine (h : History) (line : String) : History :=
  let line := trim line
  if line.isEmpty || line.startsWith "# " || line == "#" then h
  else
    let toks := words line
    let bad := { h with actions := h.actions ++ [.bad line] }
    match toks with
    | ["cfg", "debug"] => { h with debug := true }
    | ["cfg", "release"] => { h with debug := false }
    | ["maxheight", n] => match n.toNat? with
      | some n => { h with maxHeight := n }
      | none => bad
    | "fn" :: f :: "lin" :: m :: cs =>
      match parseIdx "f" f, parseInt? m, cs.mapM parseInt? with
      | some f, some m, some cs =>
        { h with defs := { h.defs with fns := (f, { m := m, coeffs := cs }) :: h.defs.fns } }
      | _, _, _ => bad
    | "fneff" :: f :: rest =>
      match parseIdx "f" f, parseEffects (joinWith " " rest) with
      | some f, some effs =>
        let old := (h.defs.fns.lookup f).getD {}
        { h with defs := { h.defs with fns := (f, { old with effects := old.effects ++ effs }) :: h.defs.fns } }
      | _, _ => bad
    | ["folddef", f, m, a, b, c] =>
      match parseIdx "fold" f, parseInt? m, parseInt? a, parseInt? b, parseInt? c with
      | some f, some m, some a, some b, some c =>
        { h with defs := { h.defs with folds := (f, (m, a, b, c)) :: h.defs.folds } }
      | _, _, _, _, _ => bad
    | ["proj", p, k] =>
      match parseIdx "p" p with
      | some p => { h with defs := { h.defs with projs := (p, k) :: h.defs.projs } }
      | none => bad
    | "old" :: g :: k =>
      match parseIdx "g" g, k with
      | some g, ["sum", m] => match parseInt? m with
        | some m => { h with defs := { h.defs with olds := (g, .sum m) :: h.defs.olds } }
        | none => bad
      | some g, ["echo"] => { h with defs := { h.defs with olds := (g, .echo) :: h.defs.olds } }
      | some g, ["flag", b] => { h with defs := { h.defs with olds := (g, .flag (b == "1")) :: h.defs.olds } }
      | _, _ => bad
    | ["cut", c, "eqmod", m] =>
      match parseIdx "c" c, parseInt? m with
      | some c, some m => { h with defs := { h.defs with cuts := (c, m) :: h.defs.cuts } }
      | _, _ => bad
    | "body" :: b :: k :: rest =>
      match parseIdx "b" b, k.toNat?, ((joinWith " " rest).splitOn "|").mapM parseAlt with
      | some b, some k, some alts =>
        { h with defs := { h.defs with bodies := (b, (k, alts)) :: h.defs.bodies } }
      | _, _, _ => bad
    | "hdl" :: hid :: rest =>
      match parseIdx "h" hid, parseEffects (joinWith " " rest) with
      | some hid, some effs => { h with defs := { h.defs with hdls := (hid, effs) :: h.defs.hdls } }
      | _, _ => bad
    | toks => match parseAction toks with
      | some a => { h with actions := h.actions ++ [a] }
      | none => bad

def parseHistory (text : String) : History :=
  (text.splitOn "\n").foldl parseLine {}

end IncrVerif.Engine
