/-!
# Engine model: data (logical-level port of `src/node.rs`, `src/state.rs`, heaps, var, observers)

Core Lean only.  Nodes are named by creation order (`Nat`); `Rc` identity is the index.
Timestamps are `Int` with `-1` = never (`StabilisationNum::init`).
-/
namespace IncrVerif.Engine

/-- the one value type used by every `Incr<V>` of the harness -/
inductive Val where
  | unit
  | int (i : Int)
  | pair (a b : Val)
  | map (m : List (Int × Int))
deriving DecidableEq, Repr, Inhabited

namespace Val
/-- canonical integer view, used by the arithmetic function families (same in the Rust harness) -/
def toInt : Val → Int
  | .unit => 0
  | .int i => i
  | .pair a b => a.toInt * 3 + b.toInt
  | .map m => m.foldl (fun acc kv => acc + kv.1 * 5 + kv.2) 0

def render : Val → String
  | .unit => "()"
  | .int i => toString i
  | .pair a b => "(" ++ a.render ++ "," ++ b.render ++ ")"
  | .map m => "{" ++ String.intercalate "," (m.map fun kv => s!"{kv.1}:{kv.2}") ++ "}"
end Val

inductive Scope where
  | top
  | bind (b : Nat)
deriving DecidableEq, Repr, Inhabited

/-- `Cutoff<T>` plus the closure installed by `depend_on` (`preserve_cutoff`) -/
inductive CutoffK where
  | always
  | never
  | eq                       -- `Cutoff::PartialEq`, the default
  | fn (c : Nat)             -- `Cutoff::Fn`
  | boxed (c : Nat)          -- `Cutoff::FnBoxed`
  | dependOn (input : Nat)   -- `preserve_cutoff`: `input.changed_at == output.changed_at`
deriving DecidableEq, Repr, Inhabited

inductive Kind where
  | const (v : Val)
  | var (cell : Nat)
  | map (f : Nat) (args : List Nat)               -- Map, Map2 … Map6 by arity
  | mapRef (p : Nat) (input : Nat)
  | mapWithOld (g : Nat) (input : Nat)
  | fold (f : Nat) (init : Val) (children : List Nat)
  | bindLhsChange (b : Nat)
  | bindMain (b : Nat) (lhsChange : Nat)
  | expert (e : Nat)
deriving DecidableEq, Repr, Inhabited

def Kind.tag : Kind → String
  | .const _ => "Const" | .var _ => "Var"
  | .map _ args => if args.length ≤ 1 then "Map" else s!"Map{args.length}"
  | .mapRef .. => "MapRef" | .mapWithOld .. => "MapWithOld"
  | .fold .. => "Fold" | .bindLhsChange _ => "BindLhsChange" | .bindMain .. => "BindMain"
  | .expert _ => "Expert"

/-- `Previously` of `node_update.rs` -/
inductive Previously where
  | neverBeenUpdated | necessary | changed | invalidated | unnecessary
deriving DecidableEq, Repr, Inhabited

/-- `NodeUpdateDelayed` -/
inductive NodeUpdate where
  | necessary | changed | invalidated | unnecessary
deriving DecidableEq, Repr, Inhabited

/-- what a subscriber sees: `Update<T>` (public.rs) -/
inductive Update where
  | initialised (v : Val) | changed (v : Val) | invalidated
deriving DecidableEq, Repr, Inhabited

structure HandlerRec where
  token : Nat            -- global creation index of the subscription
  hid : Nat              -- which handler definition
  prev : Previously := .neverBeenUpdated
  createdAt : Int
deriving Repr, Inhabited

inductive ObsState where
  | created | inUse | disallowed | unlinked
deriving DecidableEq, Repr, Inhabited

structure ObsRec where
  node : Nat
  state : ObsState := .created
  handlers : List HandlerRec := []
  clones : Nat := 1            -- strong count of the public handle's sentinel
deriving Repr, Inhabited

structure VarCell where
  value : Val
  setAt : Int
  pending : Option Val := none        -- `value_set_during_stabilisation`
  node : Nat
  linked : Bool := true               -- false after `break_rc_cycle`
  handles : Nat := 1                  -- public `Var` clones
deriving Repr, Inhabited

structure BindRec where
  lhs : Nat
  body : Nat
  lhsChange : Nat := 0
  main : Nat := 0
  rhs : Option Nat := none
  allNodesCreatedOnRhs : List Nat := []
deriving Repr, Inhabited

/-- one dependency edge of an expert node (`Edge<T>` + its `index` cell) -/
structure ExpertEdge where
  dep : Nat                -- global creation index of the `Dependency`
  child : Nat
  cb : Option Nat          -- change callback id
deriving Repr, Inhabited

structure ExpertRec where
  f : Nat                               -- recompute function id
  node : Nat := 0
  children : List ExpertEdge := []
  /-- what the edge callbacks have stored so far: dependency ↦ last value delivered -/
  slots : List (Nat × Val) := []
  /-- driver scripts: dependencies added by `xadd` (in order) and the one held by `xsel` -/
  script : List Nat := []
  sel : Option (Nat × Nat) := none       -- (dependency, child it points to)
  /-- per-key operator nodes: (operator instance, key) for a per-key input node, (instance, none) for the result -/
  pk : Option (Nat × Option Int) := none
  forceStale : Bool := false
  numInvalidChildren : Int := 0
  willFireAllCallbacks : Bool := true
deriving Repr, Inhabited

/-- one `incr_mapi_` operator instance: the state captured by its `lhs_change` closure -/
structure PerKeyRec where
  fam : Nat
  cut : Option CutoffK := none
  result : Nat := 0
  lhsChange : Nat := 0
  prevMap : List (Int × Int) := []
  /-- key ↦ (per-key node, dependency of `result` on the mapped node) -/
  prevNodes : List (Int × (Nat × Nat)) := []
deriving Repr, Inhabited

structure Node where
  kind : Kind
  createdIn : Scope
  cutoff : CutoffK := .eq
  value : Option Val := none
  valid : Bool := true
  recomputedAt : Int := -1
  changedAt : Int := -1
  height : Int := -1
  heightInRch : Int := -1
  heightInAhh : Int := -1
  /-- (parent, my child index in that parent), in `parents` vector order -/
  parents : List (Nat × Nat) := []
  observers : List Nat := []
  numOnUpdateHandlers : Int := 0
  inHandleAfterStab : Bool := false
  forceNecessary : Bool := false
  didChange : Bool := true              -- MapRef
  oldState : Val := .unit               -- closure-local state of a MapWithOld machine
deriving Repr, Inhabited

inductive Status where
  | notStabilising | stabilising | runningOnUpdateHandlers
deriving DecidableEq, Repr, Inhabited

/-- per-height FIFO buckets -/
structure Heap where
  queues : Array (List Nat)
  length : Nat := 0
  lowerBound : Int
deriving Repr, Inhabited

structure Counters where
  created : Nat := 0
  changed : Nat := 0
  recomputed : Nat := 0
  invalidated : Nat := 0
  becameNecessary : Nat := 0
  becameUnnecessary : Nat := 0
  varSets : Nat := 0
  activeObservers : Int := 0
deriving Repr, Inhabited

/-- observable events produced while an action runs (channels `inv`, `cut`, `notif`, `eff`) -/
inductive Event where
  | inv (what : String) (node : Nat) (args : List Val) (result : String)
  | cut (c : Nat) (node : Nat) (old new : Val) (res : Bool)
  | notif (token : Nat) (u : Update)
  | note (s : String)
deriving Repr, Inhabited

structure Cfg where
  debug : Bool := true
deriving Repr, Inhabited

structure State where
  cfg : Cfg := {}
  nodes : Array Node := #[]
  vars : Array VarCell := #[]
  binds : Array BindRec := #[]
  experts : Array ExpertRec := #[]
  observers : Array ObsRec := #[]
  rch : Heap
  ahh : Heap
  maxHeightSeen : Int := 0
  status : Status := .notStabilising
  stabNum : Int := 0
  currentScope : Scope := .top
  propagateInvalidity : List Nat := []      -- stack, head = top
  handleAfterStab : List Nat := []          -- push order (oldest first)
  newObservers : List Nat := []
  disallowedObservers : List Nat := []
  allObservers : List Nat := []
  setDuringStab : List Nat := []            -- stack, head = top
  deadVars : List Nat := []
  counters : Counters := {}
  nextToken : Nat := 0
  nextDep : Nat := 0
  /-- fault injection (C13): panic at the k-th user-closure invocation from now -/
  panicCountdown : Option Nat := none
  currentlyRunning : Option Nat := none      -- `only_in_debug.currently_running_node`
  alive : Bool := true                      -- false once the `IncrState` is dropped
  top : Array Nat := #[]                    -- naming table: k-th node created by a top-level action
  handles : List Nat := []                  -- nodes the program holds a handle on (top-level results not yet dropped)
  slots : List (Nat × Nat) := []            -- shared cells: slot ↦ node
  memos : List (Nat × List (Int × Nat)) := []   -- weak_memoize_fn storage: memo ↦ key ↦ node
  perkeys : Array PerKeyRec := #[]
  log : List Event := []                    -- reversed
deriving Repr, Inhabited

/-- the panic-site classes the model distinguishes (source file + message stem) -/
inductive Panic where
  | site (s : String)
  | outOfFuel
deriving Repr, Inhabited, DecidableEq

def mkHeap (maxHeight : Nat) : Heap :=
  { queues := Array.replicate (maxHeight + 1) [], length := 0, lowerBound := (maxHeight : Int) + 1 }

def State.init (maxHeight : Nat := 128) (debug : Bool := true) : State :=
  { cfg := { debug := debug }, rch := mkHeap maxHeight, ahh := mkHeap maxHeight }

/-- operand of a template instruction -/
inductive Opnd where
  | outer (n : Nat)      -- `n<k>`: the k-th node created by a top-level action (captured handle)
  | abs (n : Nat)        -- `#<i>`: a node by creation index (directed tests: nodes leaked from closures)
  | loc (j : Nat)        -- `%j`: the j-th node created by this run of the closure
  | slot (k : Nat)       -- `@s<k>`: the node last published in slot k (a shared cell)
deriving Repr, Inhabited, DecidableEq

/-- user code, the quantifier "for all programs" -/
inductive Effect where
  | setVar (v : Nat) (x : Val)
  | modifyVar (v : Nat) (d : Int)        -- `modify(|x| *x += d)` on the integer view
  | updateVar (v : Nat) (d : Int)        -- `update(|x| x + d)`
  | replaceVar (v : Nat) (x : Val)
  | replaceWithVar (v : Nat) (d : Int)
  | readObs (o : Nat)
  | stabilise
  | panic
  | disallow (o : Nat)
  | unsubscribe (o : Nat) (t : Nat)
  | subscribe (o : Nat) (h : Nat)
  | xAdd (e : Opnd) (child : Opnd) (cb : Bool)            -- add a dependency, remember it in the script list
  | xRm (e : Opnd) (i : Nat)                              -- remove the (i mod len)-th scripted dependency
  | xSel (e : Opnd) (cb : Bool) (always : Bool) (targets : List Opnd)
      -- join/bind pattern: depend on `targets[arg mod k]`, drop the previously selected dependency
  | xStale (e : Opnd)
  | xInval (e : Opnd)
  | dropVar (v : Nat)                    -- a closure drops a (clone of a) `Var` handle it owns
deriving Repr, Inhabited

/-- which incremental-map operator, with the id `m` of its user-function parameters -/
inductive MapOpK where
  | fm (m : Nat) (x : Opnd)
  | fold (m : Nat) (revert update : Bool) (x : Opnd)
  | merge (m : Nat) (x y : Opnd)
  | part (m : Nat) (x : Opnd)
deriving Repr, Inhabited

/-- node-creating instruction, usable at top level (operands `outer`) and inside bind bodies -/
inductive Instr where
  | const (v : Val)
  | lhsConst                                   -- a constant holding the lhs value the closure got
  | var (v : Val)
  | map (f : Nat) (args : List Opnd)
  | fold (f : Nat) (init : Val) (children : List Opnd)
  | mapRef (p : Nat) (input : Opnd)
  | mapWithOld (g : Nat) (input : Opnd)
  | bind (body : Nat) (lhs : Opnd)
  | zip (a b : Opnd)
  | dependOn (a b : Opnd)
  | cutoff (n : Opnd) (c : CutoffK)
  | expert (f : Nat)
  | publish (slot : Nat) (o : Opnd)            -- store a handle in a shared cell (no node created)
  | scopedVar (v : Val)                        -- `var_current_scope`
  | memoCall (m : Nat) (key : Int)             -- call a `weak_memoize_fn` function
  | mapOp (op : MapOpK)                        -- an incremental-map diff-based operator
  | perKey (cut : Option CutoffK) (fam : Nat) (x : Opnd)   -- `incr_mapi_` / `incr_mapi_cutoff`
deriving Repr, Inhabited

structure Template where
  instrs : List Instr
  ret : Opnd
deriving Repr, Inhabited

structure Env where
  fn : Nat → List Val → Val
  fnEff : Nat → List Val → List Effect
  foldStep : Nat → Val → Val → Val
  proj : Nat → Val → Val
  withOld : Nat → Val → Option Val → Val → (Val × Val × Bool)   -- σ, old, input ↦ σ', new, changed
  cutoff : Nat → Val → Val → Bool
  body : Nat → Val → Template
  handler : Nat → Update → List Effect
  /-- expert recompute closure: values of the current dependencies (in edge order) and, for those with a
  callback, what the callback last stored -/
  expertFn : Nat → List (Option Val) → List (Option Val) → Val
  /-- user-function calls an operator closure makes in one step: (what, arguments, rendered result) -/
  withOldCalls : Nat → Val → Option Val → Val → List (String × List Val × String)
  memo : Nat → Template
  perKey : Nat → Template

end IncrVerif.Engine
