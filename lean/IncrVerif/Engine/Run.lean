import IncrVerif.Engine.History
/-!
# Running a history on the model and printing the trace (same format as the Rust harness)
-/
namespace IncrVerif.Engine
open IncrVerif.Driver

def fuelDefault : Nat := 100000

/-- panic site → the class printed in the `api` channel (same classes as the harness derives
from the panic message) -/
def panicClass : Panic → String
  | .outOfFuel => "model-out-of-fuel"
  | .site s =>
    if s == "height-limit" then "height-limit"
    else if s == "cyclic" then "cyclic"
    else if s == "user" then "user"
    else if s == "state:stabilise:status" then "status"
    else if s == "node:became_necessary:bind-not-necessary" then "bind-not-necessary"
    else if s == "adjust_heights_heap:set_max_height_allowed:below-max-seen" then "below-max-seen"
    else if s == "state:set_max_height_allowed:during-stabilisation" then "during-stabilisation"
    else if s.startsWith "model:" then "model-error:" ++ s
    else "other"

def renderRead (r : Except ObsError Val) : String :=
  match r with
  | .ok v => "ok " ++ v.render
  | .error e => "err " ++ e.render

def Update.render : Update → String
  | .initialised v => "Initialised " ++ v.render
  | .changed v => "Changed " ++ v.render
  | .invalidated => "Invalidated"

def Event.render : Event → String
  | .inv what n args res =>
    s!"inv {what}@n{n} ({joinWith "," (args.map Val.render)})->{res}"
  | .cut c n old new r => s!"cut c{c}@n{n} ({old.render},{new.render})->{r}"
  | .notif t u => s!"notif t{t} {u.render}"
  | .note s => "note " ++ s

def renderNode (env : Env) (s : State) (n : Nat) : String :=
  let nd := s.nodeD n
  let b (x : Bool) : String := if x then "1" else "0"
  let par := joinWith "," (nd.parents.map fun pc => s!"{pc.1}:{pc.2}")
  let v := match s.value env n with | some v => v.render | none => "-"
  let ex := match nd.kind with
    | .expert e => match s.experts[e]? with
      | some er => s!" x=[fs={b er.forceStale} inv={er.numInvalidChildren} all={b er.willFireAllCallbacks} edges={er.children.length}]"
      | none => ""
    | _ => ""
  s!"n{n} {nd.kind.tag} h={nd.height} rch={nd.heightInRch} r={nd.recomputedAt} c={nd.changedAt} valid={b nd.valid} nec={b nd.isNecessary} val={v} par=[{par}] nh={nd.numOnUpdateHandlers} obs={nd.observers.length} ch=[{joinWith "," ((s.children n).map toString)}]{ex}"

def renderHeap (s : State) : String :=
  let buckets := (s.rch.queues.toList.zipIdx.filter fun (q, _) => !q.isEmpty).map fun (q, h) =>
    s!"{h}:[{joinWith "," (q.map fun n => s!"n{n}")}]"
  s!"len={s.rch.length} max={s.rch.maxAllowed} seen={s.maxHeightSeen} {joinWith " " buckets}"

def renderStats (s : State) : String :=
  let c := s.counters
  s!"created={c.created} changed={c.changed} recomputed={c.recomputed} invalidated={c.invalidated} became_necessary={c.becameNecessary} became_unnecessary={c.becameUnnecessary} necessary={(c.becameNecessary : Int) - c.becameUnnecessary} stable={s.isStable} status={match s.status with | .notStabilising => "NotStabilising" | .stabilising => "Stabilising" | .runningOnUpdateHandlers => "RunningOnUpdateHandlers"} num={s.stabNum}"

structure RunState where
  s : State
  tokens : Array Nat := #[]       -- token → issuing observer
deriving Inhabited

/-- one API action; returns the `api` result text -/
def stepAction (env : Env) (a : Action) (tokens : Array Nat) : M (String × Array Nat) := do
  match a with
  | .create i =>
    match ← elabInstrM env [] .unit i with
    | some n =>
      modify fun s => { s with top := s.top.push n, handles := n :: s.handles }
      pure (s!"ok #{n}", tokens)
    | none => pure ("ok", tokens)
  | .observe n =>
    let n ← resolveOpnd [] n
    let o := (← get).observers.size
    modify fun s => { s with observers := s.observers.push { node := n }, newObservers := s.newObservers ++ [o] }
    bumpCounter fun c => { c with activeObservers := c.activeObservers + 1 }
    pure (s!"ok o{o}", tokens)
  | .cloneObs o =>
    modObs o fun x => { x with clones := x.clones + 1 }
    pure ("ok", tokens)
  | .dropObs o =>
    let ob ← getObs o
    if ob.clones == 0 then pure ("noop", tokens)
    else
      modObs o fun x => { x with clones := x.clones - 1 }
      if ob.clones == 1 then disallowFutureUse o
      pure ("ok", tokens)
  | .disallow o => do disallowFutureUse o; pure ("ok", tokens)
  | .subscribe o h =>
    match ← subscribe o h with
    | .ok t => pure (s!"ok t{t}", tokens.push o)
    | .error e => pure ("err " ++ e.render, tokens)
  | .unsubscribe o t =>
    match tokens[t]? with
    | none => pure ("noop", tokens)
    | some owner =>
      match ← unsubscribe o t owner with
      | .ok () => pure ("ok", tokens)
      | .error e => pure ("err " ++ e.render, tokens)
  | .stateUnsub t =>
    match tokens[t]? with
    | none => pure ("noop", tokens)
    | some owner =>
      if (← get).allObservers.contains owner then
        discard <| unsubscribe owner t owner
      pure ("ok", tokens)
  | .set v x => do discard <| writeVar v (fun _ => x) true; pure ("ok", tokens)
  | .modify v d => do discard <| writeVar v (fun x => x.addInt d 7); pure ("ok", tokens)
  | .update v d => do discard <| writeVar v (fun x => x.addInt d 7); pure ("ok", tokens)
  | .replace v x => do
    let old ← writeVar v (fun _ => x)
    pure ("ok " ++ old.render, tokens)
  | .replaceWith v d => do
    let old ← writeVar v (fun x => x.addInt d 7)
    pure ("ok " ++ old.render, tokens)
  | .get v => do pure ("ok " ++ (← getVar v).value.render, tokens)
  | .dropVar v => do
    if ← dropVarHandle v then pure ("ok", tokens) else pure ("noop", tokens)
  | .addDep e c cb => do
    let n ← resolveOpnd [] e
    let c ← resolveOpnd [] c
    let dep ← expertAddDependency env fuelDefault n c cb
    pure (s!"ok d{dep}", tokens)
  | .dropAll => do
    -- every handle and the state are dropped: nothing may stay allocated
    modify fun s => { s with alive := false }
    pure ("ok live=0", tokens)
  | .dropHandle n => do
    let n ← resolveOpnd [] n
    if (← get).handles.contains n then
      modify fun s => { s with handles := s.handles.erase n }
      pure ("ok", tokens)
    else pure ("noop", tokens)
  | .expectPanic _ => pure ("ok", tokens)
  | .arm k => do
    modify fun s => { s with panicCountdown := some k }
    pure ("ok", tokens)
  | .setMaxHeight k => do setMaxHeightAllowed k; pure ("ok", tokens)
  | .stabilise => do stabilise env fuelDefault; pure ("ok", tokens)
  | .isStable => do pure (s!"ok {(← get).isStable}", tokens)
  | .stats => pure ("ok", tokens)
  | .bad line => pure ("bad-op " ++ line, tokens)

/-- run one action and produce its trace lines -/
def traceAction (env : Env) (idx : Nat) (a : Action) (rs : RunState) : RunState × List String :=
  let s0 := { rs.s with log := [] }
  let (res, s1) := (stepAction env a rs.tokens).run.run s0
  let (api, tokens) := match res with
    | .ok (r, t) => (r, t)
    | .error p => ("panic " ++ panicClass p, rs.tokens)
  -- which node a new observer watches (needed to follow observers on nodes named through shared cells)
  let obsNote : List String := match a, res with
    | .observe _, .ok _ => match s1.observers.back? with
      | some ob => [s!"{idx} ev note observe o{s1.observers.size - 1} n{ob.node}"]
      | none => []
    | _, _ => []
  let evs := (s1.log.reverse.map fun e => s!"{idx} ev {e.render}") ++ obsNote
  -- `dropall` drops the engine state BEFORE the observer handles: what they answer in between is shown once
  let deadReads := match a with | .dropAll => true | _ => false
  let reads := joinWith " " ((List.range s1.observers.size).map fun o =>
    if (s1.observers[o]?.map (·.clones)).getD 0 == 0 || (!s1.alive && !deadReads) then s!"o{o}=gone"
    else s!"o{o}={renderRead (s1.tryGetValue env o)}")
  let alive := s1.aliveSet
  let snaps := ((List.range s1.nodes.size).filter alive.contains).map fun n => s!"{idx} snap {renderNode env s1 n}"
  let lines := if s1.alive then
      [s!"{idx} api {api}"] ++ evs ++ [s!"{idx} read {reads}"] ++ snaps
        ++ [s!"{idx} heap {renderHeap s1}", s!"{idx} stats {renderStats s1}"]
    else [s!"{idx} api {api}"] ++ evs ++ [s!"{idx} read {reads}"]
  ({ s := s1, tokens := tokens }, lines)

def runHistory (h : History) : List String :=
  let env := h.defs.toEnv
  let init : RunState := { s := State.init h.maxHeight h.debug }
  let (_, out) := h.actions.zipIdx.foldl (fun (acc : RunState × List (List String)) (a, i) =>
    let (rs, lines) := traceAction env i a acc.1
    (rs, lines :: acc.2)) (init, [])
  out.reverse.flatten

end IncrVerif.Engine
