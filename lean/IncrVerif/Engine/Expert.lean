import IncrVerif.Engine.Core
/-!
# Engine model: the expert API (`kind/expert.rs`, `state/expert.rs`, the `expert_*` functions of `node.rs`)
-/
namespace IncrVerif.Engine

/-- `assert_currently_running_node_is_child` (debug builds only) -/
def assertRunningIsChild (n : Nat) (name : String) : M Unit := do
  let s ← get
  if s.cfg.debug then
    match s.currentlyRunning with
    | none => panic s!"expert:{name}:only-during-stabilisation"
    | some cur =>
      if !(s.children n).contains cur then panic s!"expert:{name}:running-node-not-a-child"

def expertOf (n : Nat) : M (Option Nat) := do
  match (← getNode n).kind? with
  | some (.expert e) => pure (some e)
  | _ => pure none

/-- `expert_make_stale` -/
def expertMakeStale (n : Nat) : M Unit := do
  if !(← getNode n).valid then return
  match ← expertOf n with
  | none => return
  | some e =>
    assertRunningIsChild n "make_stale"
    if (← getExpert e).forceStale then return
    modExpert e fun x => { x with forceStale := true }
    let s ← get
    if s.isNecessary n && !(s.nodeD n).inRch then rchInsert n

/-- `expert_add_dependency`; returns the new `Dependency`'s name (it exists even when the node is
invalid and the edge is not attached) -/
def expertAddDependency (env : Env) (fuel n child : Nat) (cb : Bool) : M Nat := do
  let dep := (← get).nextDep
  modify fun s => { s with nextDep := s.nextDep + 1 }
  match ← expertOf n with
  | none => return dep
  | some e =>
    let newIndex := (← getExpert e).children.length
    modExpert e fun x => { x with
      children := x.children ++ [{ dep := dep, child := child, cb := if cb then some dep else none }],
      forceStale := true }
    if (← get).isNecessary n then
      stateAddParent env fuel child newIndex n
      dassert ((← get).needsToBeComputed n) "node:expert_add_dependency:needs-to-be-computed"
      if !(← getNode n).inRch then rchInsert n
    return dep

/-- the index bookkeeping of `expert_swap_children_except_in_kind`, on the logical parent lists -/
def swapEdgeIndices (n c1 i1 c2 i2 : Nat) : M Unit := do
  let f (x : Node) : Node := { x with parents := x.parents.map fun pc =>
    if pc == (n, i1) then (n, i2) else if pc == (n, i2) then (n, i1) else pc }
  modNode c1 f
  if c2 != c1 then modNode c2 f

/-- `expert_remove_dependency` -/
def expertRemoveDependency (fuel n dep : Nat) : M Unit := do
  match ← expertOf n with
  | none => return
  | some e =>
    assertRunningIsChild n "remove_dependency"
    let er ← getExpert e
    match er.children.findIdx? (·.dep == dep) with
    | none => panic "expert:remove_dependency:edge-not-attached"
    | some edgeIndex =>
      let edge := er.children[edgeIndex]?.getD default
      let lastIndex := er.children.length - 1
      let lastEdge := er.children[lastIndex]?.getD default
      if edgeIndex != lastIndex then
        if (← get).isNecessary n then
          swapEdgeIndices n edge.child edgeIndex lastEdge.child lastIndex
        modExpert e fun x => { x with
          children := (x.children.set edgeIndex lastEdge).set lastIndex edge }
      modExpert e fun x => { x with forceStale := true }
      dassert ((← get).isStale n) "node:expert_remove_dependency:stale"
      if (← get).isNecessary n then
        -- expert_remove_child
        removeParent edge.child lastIndex n
        checkIfUnnecessary fuel edge.child
        if !(← getNode n).inRch then rchInsert n
        if !(← getNode edge.child).valid then
          modExpert e fun x => { x with numInvalidChildren := x.numInvalidChildren - 1 }   -- repaired D6
      modExpert e fun x => { x with children := x.children.dropLast, forceStale := true,
                                    slots := x.slots.filter (·.1 != dep) }

/-- `state::expert::invalidate` -/
def expertInvalidate (fuel n : Nat) : M Unit := do
  assertRunningIsChild n "invalidate"
  invalidateNode fuel n
  propagateInvalidity fuel

end IncrVerif.Engine
