import IncrVerif.Engine.Expert
/-!
# Engine model: which nodes are still allocated (the logical content of `Rc` ownership)

A node is alive iff it is reachable through STRONG references from a root.  Roots: handles the program
holds (top-level results not dropped, shared cells), observers (the public handle, or the engine's
`all_observers` while in use / disallowed), variables (the public handle, or the `Var ↔ watch node`
cycle until `break_rc_cycle`), nodes queued in the recompute heap.  Strong edges: a node's kind holds
its inputs (whether or not the node is valid or necessary), both nodes of a bind hold the bind record
(lhs and current rhs), bind main holds its change detector, an expert node holds its edges' children.
Parent pointers, scopes, `all_nodes_created_on_rhs`, memo tables, `Dependency`/`WeakNode` are weak.
-/
namespace IncrVerif.Engine

/-- strong references held by node `n` -/
def State.refsOf (s : State) (n : Nat) : List Nat :=
  let bindRefs (b : Nat) : List Nat := match s.binds[b]? with
    | some br => br.lhs :: (match br.rhs with | some r => [r] | none => [])
    | none => []
  match (s.nodeD n).kind with
  | .const _ => []
  | .var _ => []
  | .map _ args => args
  | .mapRef _ i => [i]
  | .mapWithOld _ i => [i]
  | .fold _ _ cs => cs
  | .bindLhsChange b => bindRefs b
  | .bindMain b lc => lc :: bindRefs b
  | .expert e => match s.experts[e]? with
    | some er => er.children.map (·.child)
    | none => []

def State.roots (s : State) : List Nat :=
  s.handles
  ++ s.slots.map (·.2)
  ++ (s.vars.toList.filterMap fun vc => if vc.handles > 0 || vc.linked then some vc.node else none)
  ++ (s.observers.toList.filterMap fun ob =>
        if ob.clones > 0 || ob.state == .inUse || ob.state == .disallowed then some ob.node else none)
  ++ s.rch.queues.toList.flatten

def reachFrom (refs : Nat → List Nat) : Nat → List Nat → List Nat → List Nat
  | 0, _, seen => seen
  | fuel+1, frontier, seen =>
    match frontier with
    | [] => seen
    | n :: rest =>
      if seen.contains n then reachFrom refs fuel rest seen
      else reachFrom refs fuel (refs n ++ rest) (n :: seen)

/-- the nodes that are still allocated -/
def State.aliveSet (s : State) : List Nat :=
  -- every search step either discards an already seen frontier entry or expands a new node, and a node's
  -- references are pushed once: roots + total number of references bounds the number of steps
  -- (`Props.C12.search_exact_with_enough_fuel`)
  reachFrom s.refsOf
    (s.roots.length + (List.range s.nodes.size).foldl (fun acc n => acc + (s.refsOf n).length) 0 + 8)
    s.roots []

def State.isAlive (s : State) (n : Nat) : Bool := s.aliveSet.contains n

end IncrVerif.Engine
