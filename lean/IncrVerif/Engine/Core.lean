import IncrVerif.Engine.Types
/-!
# Engine model: the algorithms (port of `node.rs`, `state.rs`, `recompute_heap.rs`,
`adjust_heights_heap.rs`, `var.rs`, `internal_observer.rs`, `node_update.rs`)

`M` keeps the state when a panic is raised (Rust unwinding leaves the engine as it was at the
panic point).  Every function has the name of the Rust function it ports.  Loops and mutual
recursion take fuel; running out is `Panic.outOfFuel`, never a result.
-/
namespace IncrVerif.Engine

abbrev M := ExceptT Panic (StateM State)

def panic {α} (site : String) : M α := throw (.site site)

/-- `assert!` -/
def assertM (c : Bool) (site : String) : M Unit := if c then pure () else panic site

/-- `debug_assert!` -/
def dassert (c : Bool) (site : String) : M Unit := do
  if (← get).cfg.debug && !c then panic site

def logEv (e : Event) : M Unit := modify fun s => { s with log := e :: s.log }

/-- every invocation of a user closure passes through here: the armed fault (if any) fires at the
k-th invocation -/
def tick : M Unit := do
  match (← get).panicCountdown with
  | none => pure ()
  | some k =>
    if k ≤ 1 then
      modify fun s => { s with panicCountdown := none }
      panic "user"
    else modify fun s => { s with panicCountdown := some (k - 1) }

/-! ## accessors -/

def State.node? (s : State) (n : Nat) : Option Node := s.nodes[n]?
def State.nodeD (s : State) (n : Nat) : Node := s.nodes[n]?.getD default

def getNode (n : Nat) : M Node := do
  match (← get).nodes[n]? with
  | some x => pure x
  | none => panic "model:no-such-node"

def modNode (n : Nat) (f : Node → Node) : M Unit :=
  modify fun s => { s with nodes := s.nodes.modify n f }

def getBind (b : Nat) : M BindRec := do
  match (← get).binds[b]? with
  | some x => pure x
  | none => panic "model:no-such-bind"

def modBind (b : Nat) (f : BindRec → BindRec) : M Unit :=
  modify fun s => { s with binds := s.binds.modify b f }

def getExpert (e : Nat) : M ExpertRec := do
  match (← get).experts[e]? with
  | some x => pure x
  | none => panic "model:no-such-expert"

def modExpert (e : Nat) (f : ExpertRec → ExpertRec) : M Unit :=
  modify fun s => { s with experts := s.experts.modify e f }

def Node.isNecessary (nd : Node) : Bool :=
  !nd.parents.isEmpty || !nd.observers.isEmpty || nd.forceNecessary

def Node.kind? (nd : Node) : Option Kind := if nd.valid then some nd.kind else none

def Node.inRch (nd : Node) : Bool := nd.heightInRch ≥ 0

/-- `try_fold_children`: (child index, child), in order -/
def State.children (s : State) (n : Nat) : List Nat :=
  match (s.nodeD n).kind? with
  | none => []
  | some (.const _) => []
  | some (.var _) => []
  | some (.map _ args) => args
  | some (.mapRef _ i) => [i]
  | some (.mapWithOld _ i) => [i]
  | some (.fold _ _ cs) => cs
  | some (.bindLhsChange b) => match s.binds[b]? with
    | some br => [br.lhs]
    | none => []
  | some (.bindMain b lc) => match s.binds[b]? with
    | some br => lc :: (match br.rhs with | some r => [r] | none => [])
    | none => [lc]
  | some (.expert e) => match s.experts[e]? with
    | some er => er.children.map (·.child)
    | none => []

def State.isNecessary (s : State) (n : Nat) : Bool := (s.nodeD n).isNecessary

/-- `is_stale` -/
def State.isStale (s : State) (n : Nat) : Bool :=
  let nd := s.nodeD n
  let wrtChild := (s.children n).any fun c => (s.nodeD c).changedAt > nd.recomputedAt
  match nd.kind? with
  | none => false
  | some (.var c) => match s.vars[c]? with
    | some vc => vc.setAt > nd.recomputedAt
    | none => false
  | some (.const _) => nd.recomputedAt == -1
  | some (.expert e) =>
    (match s.experts[e]? with | some er => er.forceStale | none => false)
      || nd.recomputedAt == -1 || wrtChild
  | some _ => nd.recomputedAt == -1 || wrtChild

def State.needsToBeComputed (s : State) (n : Nat) : Bool := s.isNecessary n && s.isStale n

/-- `value_as_any`: MapRef reads through its input; fuel bounds the chain of MapRefs -/
def State.valueWith (proj : Nat → Val → Val) (s : State) : Nat → Nat → Option Val
  | 0, _ => none
  | fuel+1, n =>
    let nd := s.nodeD n
    match nd.kind? with
    | some (.mapRef p i) => (s.valueWith proj fuel i).map (proj p)
    | _ => nd.value

def State.value (env : Env) (s : State) (n : Nat) : Option Val :=
  s.valueWith env.proj (s.nodes.size + 1) n

def scopeHeight (sc : Scope) : M Int := do
  match sc with
  | .top => pure 0
  | .bind b => do
    let br ← getBind b
    pure (← getNode br.lhsChange).height

def scopeIsNecessary (sc : Scope) : M Bool := do
  match sc with
  | .top => pure true
  | .bind b => do
    let br ← getBind b
    pure (← getNode br.main).isNecessary

def scopeIsValid (sc : Scope) : M Bool := do
  match sc with
  | .top => pure true
  | .bind b => do
    let br ← getBind b
    pure (← getNode br.main).valid

/-! ## recompute heap (`recompute_heap.rs`) -/

def Heap.maxAllowed (h : Heap) : Int := (h.queues.size : Int) - 1

/-- `VecDeque::swap_remove_back` -/
def swapRemoveBack (q : List Nat) (idx : Nat) : List Nat :=
  match q.getLast? with
  | none => q
  | some last =>
    if idx + 1 == q.length then q.dropLast
    else (q.set idx last).dropLast

def rchLink (n : Nat) : M Unit := do
  let nd ← getNode n
  let s ← get
  assertM (nd.height ≥ 0) "recompute_heap:link:height>=0"
  assertM (nd.height ≤ s.rch.maxAllowed) "recompute_heap:link:height<=max"
  modNode n fun x => { x with heightInRch := nd.height }
  modify fun s => { s with rch := { s.rch with queues := s.rch.queues.modify nd.height.toNat (· ++ [n]) } }

def rchUnlink (n : Nat) : M Unit := do
  let nd ← getNode n
  let s ← get
  let h := nd.heightInRch.toNat
  match s.rch.queues[h]? with
  | none => panic "recompute_heap:unlink:no-queue"
  | some q =>
    if nd.heightInRch < 0 then panic "recompute_heap:unlink:no-queue"
    match q.idxOf? n with
    | none => panic "recompute_heap:unlink:not-in-heap"
    | some idx =>
      modify fun s => { s with rch := { s.rch with queues := s.rch.queues.set! h (swapRemoveBack q idx) } }

def rchInsert (n : Nat) : M Unit := do
  let s ← get
  let nd ← getNode n
  dassert (!nd.inRch && s.needsToBeComputed n) "recompute_heap:insert:precondition"
  dassert (nd.height ≤ s.rch.maxAllowed) "recompute_heap:insert:height<=max"
  if nd.height < s.rch.lowerBound then
    modify fun s => { s with rch := { s.rch with lowerBound := nd.height } }
  rchLink n
  modify fun s => { s with rch := { s.rch with length := s.rch.length + 1 } }

def rchRemove (n : Nat) : M Unit := do
  let s ← get
  let nd ← getNode n
  dassert (nd.inRch && !s.needsToBeComputed n) "recompute_heap:remove:precondition"
  rchUnlink n
  modNode n fun x => { x with heightInRch := -1 }
  modify fun s => { s with rch := { s.rch with length := s.rch.length - 1 } }

/-- first non-empty bucket at or above `lb`, or `size` -/
def firstNonEmpty (queues : Array (List Nat)) : Nat → Nat → Nat
  | 0, lb => lb
  | fuel+1, lb =>
    match queues[lb]? with
    | some [] => firstNonEmpty queues fuel (lb + 1)
    | _ => lb

/-- `min_height` (with `raise_min_height`) -/
def rchMinHeight : M Int := do
  let s ← get
  let lb : Int :=
    if s.rch.length == 0 then (s.rch.queues.size : Int)
    else if s.rch.lowerBound < 0 then s.rch.lowerBound
    else (firstNonEmpty s.rch.queues (s.rch.queues.size + 1) s.rch.lowerBound.toNat : Nat)
  modify fun s => { s with rch := { s.rch with lowerBound := lb } }
  pure lb

def rchIncreaseHeight (n : Nat) : M Unit := do
  let nd ← getNode n
  let s ← get
  dassert (nd.height > nd.heightInRch) "recompute_heap:increase_height:height>in_rch"
  dassert nd.inRch "recompute_heap:increase_height:in_rch"
  dassert (nd.height ≤ s.rch.maxAllowed) "recompute_heap:increase_height:height<=max"
  rchUnlink n
  rchLink n

/-- `remove_min` -/
def rchRemoveMin : M (Option Nat) := do
  let s ← get
  if s.rch.length == 0 then return none
  dassert (s.rch.lowerBound ≥ 0) "recompute_heap:remove_min:lower_bound>=0"
  let lb := firstNonEmpty s.rch.queues (s.rch.queues.size + 1) s.rch.lowerBound.toNat
  match s.rch.queues[lb]? with
  | none =>
    -- `queues.get(..)?` ran off the end: the debug assertion fires first
    dassert false "recompute_heap:remove_min:end-of-heap"
    modify fun s => { s with rch := { s.rch with lowerBound := lb } }
    return none
  | some [] => return none
  | some (n :: rest) =>
    modify fun s => { s with rch := { s.rch with
      queues := s.rch.queues.set! lb rest, lowerBound := lb, length := s.rch.length - 1 } }
    modNode n fun x => { x with heightInRch := -1 }
    return some n

/-! ## adjust-heights heap (`adjust_heights_heap.rs`) -/

/-- `AdjustHeightsHeap::set_height` (also `State::set_height`) -/
def setHeight (n : Nat) (h : Int) : M Unit := do
  let s ← get
  if h > s.maxHeightSeen then
    modify fun s => { s with maxHeightSeen := h }
    if h > s.ahh.maxAllowed then panic "height-limit"
  modNode n fun x => { x with height := h }

def ahhAddUnlessMem (n : Nat) : M Unit := do
  let nd ← getNode n
  if nd.heightInAhh == -1 then
    let s ← get
    dassert (nd.height ≥ s.ahh.lowerBound) "adjust_heights_heap:add:height>=lower_bound"
    dassert (nd.height ≤ s.ahh.maxAllowed) "adjust_heights_heap:add:height<=max"
    modNode n fun x => { x with heightInAhh := nd.height }
    if nd.height < 0 || nd.height.toNat ≥ s.ahh.queues.size then panic "adjust_heights_heap:add:no-queue"
    modify fun s => { s with ahh := { s.ahh with
      length := s.ahh.length + 1,
      queues := s.ahh.queues.modify nd.height.toNat (· ++ [n]) } }

def ahhRemoveMin : M (Option Nat) := do
  let s ← get
  if s.ahh.length == 0 then return none
  let lb := firstNonEmpty s.ahh.queues (s.ahh.queues.size + 1) s.ahh.lowerBound.toNat
  match s.ahh.queues[lb]? with
  | none => return none
  | some [] => return none
  | some (n :: rest) =>
    modify fun s => { s with ahh := { s.ahh with
      queues := s.ahh.queues.set! lb rest, lowerBound := lb, length := s.ahh.length - 1 } }
    modNode n fun x => { x with heightInAhh := -1 }
    return some n

/-- `ensure_height_requirement` -/
def ensureHeightRequirement (oc _op child parent : Nat) : M Unit := do
  let s ← get
  dassert (s.isNecessary child) "adjust_heights_heap:ensure:child-necessary"
  dassert (s.isNecessary parent) "adjust_heights_heap:ensure:parent-necessary"
  if parent == oc then panic "cyclic"
  let c ← getNode child
  let p ← getNode parent
  if c.height ≥ p.height then
    ahhAddUnlessMem parent
    setHeight parent (c.height + 1)

/-- the `while let Some(child) = self.remove_min()` loop of `adjust_heights` -/
def adjustHeightsLoop (oc op : Nat) : Nat → M Unit
  | 0 => throw .outOfFuel
  | fuel+1 => do
    match ← ahhRemoveMin with
    | none => pure ()
    | some c =>
      if (← getNode c).inRch then rchIncreaseHeight c
      -- ensure_parent_height_requirements
      for (p, _) in (← getNode c).parents do
        ensureHeightRequirement oc op c p
      -- adjust_heights_bind_lhs_change
      match (← getNode c).kind? with
      | some (.bindLhsChange b) =>
        for r in (← getBind b).allNodesCreatedOnRhs do
          if (← get).isNecessary r then ensureHeightRequirement oc op c r
      | _ => pure ()
      adjustHeightsLoop oc op fuel

def adjustHeights (oc op : Nat) (fuel : Nat) : M Unit := do
  let s ← get
  dassert (s.ahh.length == 0) "adjust_heights_heap:adjust:empty-before"
  dassert ((s.nodeD oc).height ≥ (s.nodeD op).height) "adjust_heights_heap:adjust:child>=parent"
  modify fun s => { s with ahh := { s.ahh with lowerBound := (s.nodeD op).height } }
  ensureHeightRequirement oc op oc op
  adjustHeightsLoop oc op fuel
  let s ← get
  dassert (s.ahh.length == 0) "adjust_heights_heap:adjust:empty-after"
  dassert ((s.nodeD oc).height < (s.nodeD op).height) "adjust_heights_heap:adjust:child<parent"

/-! ## parents (`add_parent`, `remove_parent`) -/

def addParent (child index parent : Nat) : M Unit :=
  modNode child fun x => { x with parents := x.parents ++ [(parent, index)] }

/-- `Vec::swap_remove` -/
def swapRemove {α} (l : List α) (idx : Nat) : List α :=
  match l.getLast? with
  | none => l
  | some last => if idx + 1 == l.length then l.dropLast else (l.set idx last).dropLast

def removeParent (child index parent : Nat) : M Unit := do
  let c ← getNode child
  match c.parents.idxOf? (parent, index) with
  | none => panic "node:remove_parent:not-a-parent"
  | some pi => modNode child fun x => { x with parents := swapRemove x.parents pi }

/-! ## update handlers bookkeeping -/

def handleAfterStabilisation (n : Nat) : M Unit := do
  if !(← getNode n).inHandleAfterStab then
    modNode n fun x => { x with inHandleAfterStab := true }
    modify fun s => { s with handleAfterStab := s.handleAfterStab ++ [n] }

def maybeHandleAfterStabilisation (n : Nat) : M Unit := do
  if (← getNode n).numOnUpdateHandlers > 0 then handleAfterStabilisation n

/-! ## cutoffs -/

def shouldCutoff (env : Env) (n : Nat) (old new : Val) : M Bool := do
  match (← getNode n).cutoff with
  | .always => pure true
  | .never => pure false
  | .eq => pure (old == new)
  | .fn c => do
    tick
    let r := env.cutoff c old new
    logEv (.cut c n old new r)
    pure r
  | .boxed c => do
    tick
    let r := env.cutoff c old new
    logEv (.cut c n old new r)
    pure r
  | .dependOn i => pure ((← getNode i).changedAt == (← getNode n).changedAt)

/-! ## expert edge callbacks (`ExpertNode::run_edge_callback`, `Edge::on_change`) -/

def edgeOnChange (env : Env) (e : Nat) (edge : ExpertEdge) : M Unit := do
  match edge.cb with
  | none => pure ()
  | some _ =>
    -- (repaired D7) only when the child has a value
    match (← get).value env edge.child with
    | none => pure ()
    | some v =>
      let er ← getExpert e
      if er.pk.isNone then
        tick
        logEv (.inv s!"cb" er.node [v] s!"d{edge.dep}")
      modExpert e fun x => { x with slots := (edge.dep, v) :: x.slots.filter (·.1 != edge.dep) }

def runEdgeCallback (env : Env) (e : Nat) (childIndex : Nat) : M Unit := do
  let er ← getExpert e
  if !er.willFireAllCallbacks then
    match er.children[childIndex]? with
    | none => pure ()
    | some edge => edgeOnChange env e edge

def observabilityChange (e : Nat) (nowObservable : Bool) : M Unit := do
  let er ← getExpert e
  if er.pk.isNone then
    -- the user's callback can see whether the engine is stabilising (`is_stabilising()`)
    logEv (.note s!"obschange n{er.node} {nowObservable} stab={(← get).status != .notStabilising}")
  if !nowObservable then
    modExpert e fun x => { x with willFireAllCallbacks := true, numInvalidChildren := 0 }

/-! ## necessity, invalidation (mutually recursive cascades) -/

/-- `should_be_invalidated` -/
def State.shouldBeInvalidated (s : State) (n : Nat) : Bool :=
  match (s.nodeD n).kind? with
  | none => false
  | some (.const _) => false
  | some (.var _) => false
  | some (.bindLhsChange b) => match s.binds[b]? with
    | some br => !(s.nodeD br.lhs).valid
    | none => false
  | some (.bindMain _ lc) => !(s.nodeD lc).valid
  | some (.expert _) => false
  | some _ => (s.children n).any fun c => !(s.nodeD c).valid

/-- repaired D1, `map_ref_projection_unknown`: a `map_ref` node that is re-linked while stale, and the
`map_ref` parents that have just linked to it, must assume their projection changed -/
def markMapRefUnknown : Nat → Nat → M Unit
  | 0, _ => throw .outOfFuel
  | fuel+1, n => do
    match (← getNode n).kind? with
    | some (.mapRef _ _) =>
      modNode n fun x => { x with didChange := true }
      for (p, _) in (← getNode n).parents do markMapRefUnknown fuel p
    | _ => pure ()

mutual

/-- `became_necessary` -/
def becameNecessary (env : Env) : Nat → Nat → M Unit
  | 0, _ => throw .outOfFuel
  | fuel+1, n => do
    let nd ← getNode n
    if nd.valid && !(← scopeIsNecessary nd.createdIn) then
      panic "node:became_necessary:bind-not-necessary"
    modify fun s => { s with counters := { s.counters with becameNecessary := s.counters.becameNecessary + 1 } }
    maybeHandleAfterStabilisation n
    setHeight n ((← scopeHeight nd.createdIn) + 1)
    let mut h := (← getNode n).height
    let cs := (← get).children n
    let mut idx := 0
    for c in cs do
      addParentWithoutAdjustingHeights env fuel c idx n
      let ch := (← getNode c).height
      if ch ≥ h then h := ch + 1
      idx := idx + 1
    setHeight n h
    let s ← get
    dassert (!(s.nodeD n).inRch) "node:became_necessary:not-in-rch"
    dassert (s.isNecessary n) "node:became_necessary:is-necessary"
    if s.isStale n then
      markMapRefUnknown fuel n                                                    -- repaired D1
      rchInsert n
    match (← getNode n).kind? with
    | some (.expert e) => observabilityChange e true
    | _ => pure ()

/-- `add_parent_without_adjusting_heights` -/
def addParentWithoutAdjustingHeights (env : Env) : Nat → Nat → Nat → Nat → M Unit
  | 0, _, _, _ => throw .outOfFuel
  | fuel+1, child, index, parent => do
    dassert ((← get).isNecessary parent) "node:add_parent:parent-necessary"
    let wasNecessary := (← get).isNecessary child
    addParent child index parent
    if !(← getNode child).valid then
      modify fun s => { s with propagateInvalidity := parent :: s.propagateInvalidity }
    if !wasNecessary then becameNecessary env fuel child
    else
      -- repaired D15: a linked `map_ref` child whose projection change is still pending (it has not been
      -- recomputed yet): a `map_ref` parent linking only now missed the `child_changed` notification
      let cn ← getNode child
      match cn.kind? with
      | some (.mapRef _ _) => if cn.didChange then markMapRefUnknown fuel parent
      | _ => pure ()
    match (← getNode parent).kind? with      -- repaired D7: the parent's kind
    | some (.expert e) => runEdgeCallback env e index
    | _ => pure ()

end

mutual

/-- `became_unnecessary` -/
def becameUnnecessary : Nat → Nat → M Unit
  | 0, _ => throw .outOfFuel
  | fuel+1, n => do
    modify fun s => { s with counters := { s.counters with becameUnnecessary := s.counters.becameUnnecessary + 1 } }
    maybeHandleAfterStabilisation n
    setHeight n (-1)
    removeChildren fuel n
    match (← getNode n).kind? with
    | some (.expert e) => observabilityChange e false
    | _ => pure ()
    let s ← get
    dassert (!s.needsToBeComputed n) "node:became_unnecessary:not-needs-to-be-computed"
    if (s.nodeD n).inRch then rchRemove n

/-- `check_if_unnecessary` -/
def checkIfUnnecessary : Nat → Nat → M Unit
  | 0, _ => throw .outOfFuel
  | fuel+1, n => do
    if !(← get).isNecessary n then becameUnnecessary fuel n

/-- `remove_children` -/
def removeChildren : Nat → Nat → M Unit
  | 0, _ => throw .outOfFuel
  | fuel+1, n => do
    let cs := (← get).children n
    let mut idx := 0
    for c in cs do
      removeParent c idx n
      checkIfUnnecessary fuel c
      idx := idx + 1

end

/-- `invalidate_node` and `invalidate_nodes_created_on_rhs` -/
def invalidateNode : Nat → Nat → M Unit
  | 0, _ => throw .outOfFuel
  | fuel+1, n => do
    let nd ← getNode n
    if !nd.valid then return
    maybeHandleAfterStabilisation n
    let now := (← get).stabNum
    modNode n fun x => { x with value := none, changedAt := now, recomputedAt := now }
    modify fun s => { s with counters := { s.counters with invalidated := s.counters.invalidated + 1 } }
    if (← get).isNecessary n then
      removeChildren fuel n
      setHeight n ((← scopeHeight nd.createdIn) + 1)
    match nd.kind with
    | .bindMain b _ =>
      let all := (← getBind b).allNodesCreatedOnRhs
      modBind b fun x => { x with allNodesCreatedOnRhs := [] }
      for r in all do invalidateNode fuel r
    | _ => pure ()
    modNode n fun x => { x with valid := false }
    for (p, _) in (← getNode n).parents do
      modify fun s => { s with propagateInvalidity := p :: s.propagateInvalidity }
    let s ← get
    dassert (!s.needsToBeComputed n) "node:invalidate_node:not-needs-to-be-computed"
    if (s.nodeD n).inRch then rchRemove n

/-- `State::propagate_invalidity` -/
def propagateInvalidity : Nat → M Unit
  | 0 => throw .outOfFuel
  | fuel+1 => do
    match (← get).propagateInvalidity with
    | [] => pure ()
    | n :: rest =>
      modify fun s => { s with propagateInvalidity := rest }
      let s ← get
      if (s.nodeD n).valid then
        if s.shouldBeInvalidated n then
          invalidateNode fuel n
        else
          dassert (s.needsToBeComputed n) "state:propagate_invalidity:needs-to-be-computed"
          match (s.nodeD n).kind? with
          | some (.expert e) => modExpert e fun x => { x with numInvalidChildren := x.numInvalidChildren + 1 }
          | some (.bindMain _ _) => pure ()
          | _ => dassert false "node:propagate_invalidity_helper:no-children"
          if !(← getNode n).inRch then rchInsert n
      propagateInvalidity fuel

/-- `became_necessary_propagate` -/
def becameNecessaryPropagate (env : Env) (fuel n : Nat) : M Unit := do
  becameNecessary env fuel n
  propagateInvalidity fuel

/-- `state_add_parent` -/
def stateAddParent (env : Env) (fuel child index parent : Nat) : M Unit := do
  dassert ((← get).isNecessary parent) "node:state_add_parent:parent-necessary"
  addParentWithoutAdjustingHeights env fuel child index parent
  if (← getNode child).height ≥ (← getNode parent).height then
    adjustHeights child parent fuel
  propagateInvalidity fuel
  dassert ((← get).isNecessary parent) "node:state_add_parent:parent-necessary"
  let p ← getNode parent
  let c ← getNode child
  if !p.inRch && (p.recomputedAt == -1 || c.changedAt > p.recomputedAt) then
    rchInsert parent

/-- `change_child_bind_rhs` -/
def changeChildBindRhs (env : Env) (fuel main : Nat) (old : Option Nat) (new : Nat) (index : Nat) :
    M Unit := do
  match (← getNode main).kind? with
  | some (.bindMain _ _) =>
    match old with
    | none => stateAddParent env fuel new index main
    | some o =>
      if o == new then return
      removeParent o index main
      modNode o fun x => { x with forceNecessary := true }
      stateAddParent env fuel new index main
      modNode o fun x => { x with forceNecessary := false }
      checkIfUnnecessary fuel o
  | _ => pure ()

end IncrVerif.Engine
