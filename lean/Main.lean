import IncrVerif.Driver.Pure
/-! Driver executable: runs the model on the same line protocols as the Rust harness. -/
open IncrVerif.Driver

partial def lineLoop (h : IO.FS.Stream) (out : IO.FS.Stream) (f : String → String) : IO Unit := do
  let line ← h.getLine
  if line.isEmpty then return ()
  if !(trim line).isEmpty then out.putStrLn (f line)
  lineLoop h out f

def main (args : List String) : IO UInt32 := do
  let stdin ← IO.getStdin
  let stdout ← IO.getStdout
  match args with
  | ["pure"] => lineLoop stdin stdout pureOne; stdout.flush; return 0
  | ["pure-check"] => lineLoop stdin stdout pureCheckOne; stdout.flush; return 0
  | _ => IO.eprintln "usage: driver pure < cases"; return 2
