import IncrVerif.Driver.Pure
import IncrVerif.Engine.Run
import IncrVerif.Spec.Props
/-! Driver executable: runs the model on the same line protocols as the Rust harness. -/
open IncrVerif.Driver

partial def lineLoop (h : IO.FS.Stream) (out : IO.FS.Stream) (f : String → String) : IO Unit := do
  let line ← h.getLine
  if line.isEmpty then return ()
  if !(trim line).isEmpty then out.putStrLn (f line)
  lineLoop h out f

partial def readAll (h : IO.FS.Stream) (acc : String) : IO String := do
  let line ← h.getLine
  if line.isEmpty then return acc
  readAll h (acc ++ line)

def main (args : List String) : IO UInt32 := do
  let stdin ← IO.getStdin
  let stdout ← IO.getStdout
  match args with
  | ["pure"] => lineLoop stdin stdout pureOne; stdout.flush; return 0
  | ["engine"] => do
    let text ← readAll stdin ""
    for l in IncrVerif.Engine.runHistory (IncrVerif.Engine.parseHistory text) do
      stdout.putStrLn l
    stdout.flush
    return 0
  | "engine-check" :: histFile :: traceFile :: props => do
    let h := IncrVerif.Engine.parseHistory (← IO.FS.readFile histFile)
    let tr := IncrVerif.Spec.parseTrace (← IO.FS.readFile traceFile)
    for p in props do
      match IncrVerif.Spec.evalProp p h tr with
      | none => stdout.putStrLn s!"{p} ok"
      | some why => stdout.putStrLn s!"{p} fail {why}"
    stdout.flush
    return 0
  | ["pure-check"] => lineLoop stdin stdout pureCheckOne; stdout.flush; return 0
  | _ => IO.eprintln "usage: driver pure < cases"; return 2
