//! `pure` mode: one case per input line, one result line per case (C18).
use std::collections::BTreeMap;
use std::io::{self, BufRead, Write};
use std::rc::Rc;

use im_rc::OrdMap;
use incremental_map::symmetric_fold::{verif, DiffElement, MergeElement, SymmetricFoldMap};

fn parse_map(s: &str) -> Vec<(i64, i64)> {
    let s = s.trim();
    if s.is_empty() || s == "-" {
        return vec![];
    }
    s.split(',')
        .map(|kv| {
            let (k, v) = kv.split_once(':').expect("k:v");
            (k.trim().parse().unwrap(), v.trim().parse().unwrap())
        })
        .collect()
}

fn parse_keys(s: &str) -> Vec<i64> {
    let s = s.trim();
    if s.is_empty() || s == "-" {
        return vec![];
    }
    s.split(',').map(|k| k.trim().parse().unwrap()).collect()
}

fn fmt_diff(k: i64, e: &DiffElement<&i64>) -> String {
    match e {
        DiffElement::Left(v) => format!("L {} {}", k, v),
        DiffElement::Right(v) => format!("R {} {}", k, v),
        DiffElement::Unequal(a, b) => format!("U {} {} {}", k, a, b),
    }
}

fn fold_list<M: SymmetricFoldMap<i64, i64>>(a: &M, b: &M) -> String {
    let v = a.symmetric_fold(b, Vec::new(), |mut acc, (k, e)| {
        acc.push(fmt_diff(*k, &e));
        acc
    });
    v.join(";")
}

fn tagged(s: &str) -> Vec<(i64, i64)> {
    parse_map(s)
}

pub fn one(line: &str) -> String {
    let line = line.trim();
    let (cmd, rest) = line.split_once(' ').unwrap_or((line, ""));
    let parts: Vec<&str> = rest.split('|').collect();
    match cmd {
        // symmetric_fold through the public trait on the three map types
        "sd" => {
            let (ty, a) = parts[0].trim().split_once(' ').unwrap_or((parts[0].trim(), ""));
            let a = parse_map(a);
            let b = parse_map(parts[1]);
            match ty {
                "bt" => {
                    let a: BTreeMap<i64, i64> = a.into_iter().collect();
                    let b: BTreeMap<i64, i64> = b.into_iter().collect();
                    fold_list(&a, &b)
                }
                "rc" => {
                    let a: Rc<BTreeMap<i64, i64>> = Rc::new(a.into_iter().collect());
                    let b: Rc<BTreeMap<i64, i64>> = Rc::new(b.into_iter().collect());
                    fold_list(&a, &b)
                }
                "ord" => {
                    let a: OrdMap<i64, i64> = a.into_iter().collect();
                    let b: OrdMap<i64, i64> = b.into_iter().collect();
                    fold_list(&a, &b)
                }
                _ => "bad-op".into(),
            }
        }
        // owning iterator (hook)
        "sdo" => {
            let a: BTreeMap<i64, i64> = parse_map(parts[0]).into_iter().collect();
            let b: BTreeMap<i64, i64> = parse_map(parts[1]).into_iter().collect();
            verif::symmetric_diff_owned(a, b)
                .iter()
                .map(|e| match e {
                    DiffElement::Left((k, v)) => format!("L {} {}", k, v),
                    DiffElement::Right((k, v)) => format!("R {} {}", k, v),
                    DiffElement::Unequal((k, a), (k2, b)) => {
                        if k == k2 {
                            format!("U {} {} {}", k, a, b)
                        } else {
                            format!("U! {} {} {} {}", k, a, k2, b)
                        }
                    }
                })
                .collect::<Vec<_>>()
                .join(";")
        }
        // MergeOnce on key lists (hook)
        "mo" => {
            let r = verif::merge_once(parse_keys(parts[0]), parse_keys(parts[1]));
            r.iter().map(|k| k.to_string()).collect::<Vec<_>>().join(",")
        }
        // MergeOnceWith on two tagged streams with the comparator of merge_shared_impl (hook)
        "mow" => {
            let l = tagged(parts[0]);
            let r = tagged(parts[1]);
            verif::merge_once_with(l, r, |a, b| a.0.cmp(&b.0))
                .iter()
                .map(|e| match e {
                    MergeElement::Left((k, t)) => format!("L {} {}", k, t),
                    MergeElement::Right((k, t)) => format!("R {} {}", k, t),
                    MergeElement::Both((k, t), (k2, t2)) => format!("B {} {} {} {}", k, t, k2, t2),
                })
                .collect::<Vec<_>>()
                .join(";")
        }
        _ => "bad-op".into(),
    }
}

pub fn run() {
    let stdin = io::stdin();
    let out = io::stdout();
    let mut out = io::BufWriter::new(out.lock());
    for line in stdin.lock().lines() {
        let line = line.unwrap();
        if line.trim().is_empty() {
            continue;
        }
        let r = std::panic::catch_unwind(|| one(&line));
        match r {
            Ok(s) => writeln!(out, "{}", s).unwrap(),
            Err(_) => writeln!(out, "panic").unwrap(),
        }
    }
}
