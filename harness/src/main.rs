//! Verification harness: drives the real crates (path dependencies on /repo, hooks enabled)
//! from the line protocols shared with the Lean driver (`/verif/lean/Main.lean`).
mod engine;
mod pure;

fn main() {
    let args: Vec<String> = std::env::args().collect();
    let mode = args.get(1).map(|s| s.as_str()).unwrap_or("");
    match mode {
        "pure" => pure::run(),
        "engine" => engine::run(),
        _ => {
            eprintln!("usage: verif-harness pure < cases");
            std::process::exit(2);
        }
    }
}
