//! `engine` mode: interpret a history (the language of `IncrVerif/Engine/History.lean`) on the real
//! crate through its public API, and print the same trace the Lean driver prints from the model.
use std::cell::{Cell, RefCell};
use std::collections::{BTreeMap, HashMap};
use std::fmt;
use std::io::Read;
use std::panic::{catch_unwind, AssertUnwindSafe};
use std::rc::Rc;

use incremental::expert::{Dependency, Node as ExpertNode};
use incremental::{Cutoff, Incr, IncrState, Observer, SubscriptionToken, Update, Var};
use incremental_map::prelude::*;
use im_rc::OrdMap;

// ------------------------------------------------------------------------------------------------
// values

#[derive(Clone, PartialEq)]
pub enum V {
    Unit,
    Int(i64),
    Pair(Rc<(V, V)>),
    Map(Rc<BTreeMap<i64, i64>>),
}

impl Default for V {
    fn default() -> Self {
        V::Unit
    }
}

impl fmt::Debug for V {
    fn fmt(&self, f: &mut fmt::Formatter<'_>) -> fmt::Result {
        match self {
            V::Unit => write!(f, "()"),
            V::Int(i) => write!(f, "{}", i),
            V::Pair(p) => write!(f, "({:?},{:?})", p.0, p.1),
            V::Map(m) => {
                write!(f, "{{")?;
                let mut first = true;
                for (k, v) in m.iter() {
                    if !first {
                        write!(f, ",")?;
                    }
                    first = false;
                    write!(f, "{}:{}", k, v)?;
                }
                write!(f, "}}")
            }
        }
    }
}

pub fn to_int(v: &V) -> i64 {
    match v {
        V::Unit => 0,
        V::Int(i) => *i,
        V::Pair(p) => to_int(&p.0) * 3 + to_int(&p.1),
        V::Map(m) => m.iter().fold(0, |acc, (k, v)| acc + k * 5 + v),
    }
}

fn emod(a: i64, m: i64) -> i64 {
    if m <= 0 {
        a
    } else {
        a.rem_euclid(m)
    }
}

fn parse_val(s: &str) -> Option<V> {
    let s = s.trim();
    if s == "()" {
        return Some(V::Unit);
    }
    if s.starts_with('{') && s.ends_with('}') {
        let inner = &s[1..s.len() - 1];
        let mut m = BTreeMap::new();
        if !inner.trim().is_empty() {
            for kv in inner.split(',') {
                let (k, v) = kv.split_once(':')?;
                m.insert(k.trim().parse().ok()?, v.trim().parse().ok()?);
            }
        }
        return Some(V::Map(Rc::new(m)));
    }
    if s.starts_with('(') && s.ends_with(')') {
        let inner = &s[1..s.len() - 1];
        let (a, b) = inner.split_once(',')?;
        return Some(V::Pair(Rc::new((
            V::Int(a.trim().parse().ok()?),
            V::Int(b.trim().parse().ok()?),
        ))));
    }
    s.parse().ok().map(V::Int)
}

// ------------------------------------------------------------------------------------------------
// definitions

#[derive(Clone, Debug)]
enum Effect {
    SetVar(usize, V),
    ModVar(usize, i64),
    UpdVar(usize, i64),
    ReplVar(usize, V),
    ReplWVar(usize, i64),
    ReadObs(usize),
    Stab,
    Panic,
    Disallow(usize),
    Unsub(usize, usize),
    Sub(usize, usize),
    XAdd(Opnd, Opnd, bool),
    XRm(Opnd, usize),
    XSel(Opnd, bool, bool, Vec<Opnd>),
    XStale(Opnd),
    XInval(Opnd),
    DropVar(usize),
}

#[derive(Clone, Debug)]
enum Opnd {
    Outer(usize),
    Abs(usize),
    Loc(usize),
    Slot(usize),
}

#[derive(Clone, Debug)]
enum CutK {
    Never,
    Always,
    Eq,
    Fn(usize),
    Boxed(usize),
}

#[derive(Clone, Debug)]
enum Instr {
    Const(V),
    LhsConst,
    Var(V),
    Map(usize, Vec<Opnd>),
    Fold(usize, V, Vec<Opnd>),
    MapRef(usize, Opnd),
    MapOld(usize, Opnd),
    Bind(usize, Opnd),
    Zip(Opnd, Opnd),
    DependOn(Opnd, Opnd),
    Cutoff(Opnd, CutK),
    Expert(usize, i64),
    MapOp(MapOp),
    Publish(usize, Opnd),
    ScopedVar(V),
    MemoCall(usize, i64),
    PerKey(String, String, usize, Opnd),
}

#[derive(Clone, Debug)]
enum MapOp {
    Fm(String, usize, Opnd),
    Fold(String, usize, bool, bool, Opnd),
    Merge(String, usize, Opnd, Opnd),
    Part(usize, Opnd),
}

#[derive(Clone, Debug)]
struct Template {
    instrs: Vec<Instr>,
    ret: Opnd,
}

#[derive(Clone, Debug, Default)]
struct FnDef {
    m: i64,
    coeffs: Vec<i64>,
    effects: Vec<Effect>,
}

#[derive(Clone, Debug)]
enum OldKind {
    Sum(i64),
    Echo,
    Flag(bool),
}

#[derive(Default)]
struct Defs {
    fns: HashMap<usize, FnDef>,
    folds: HashMap<usize, (i64, i64, i64, i64)>,
    projs: HashMap<usize, String>,
    olds: HashMap<usize, OldKind>,
    cuts: HashMap<usize, i64>,
    bodies: HashMap<usize, (usize, Vec<Template>)>,
    hdls: HashMap<usize, Vec<Effect>>,
    mfns: HashMap<usize, [i64; 5]>,
    memo_defs: HashMap<usize, Template>,
    pks: HashMap<usize, Template>,
}

fn idx(pfx: &str, s: &str) -> Option<usize> {
    s.trim().strip_prefix(pfx)?.parse().ok()
}

fn parse_opnd(s: &str) -> Option<Opnd> {
    let s = s.trim();
    if let Some(r) = s.strip_prefix('%') {
        return r.parse().ok().map(Opnd::Loc);
    }
    if let Some(r) = s.strip_prefix('n') {
        return r.parse().ok().map(Opnd::Outer);
    }
    if let Some(r) = s.strip_prefix('#') {
        return r.parse().ok().map(Opnd::Abs);
    }
    if let Some(r) = s.strip_prefix("@s") {
        return r.parse().ok().map(Opnd::Slot);
    }
    None
}

fn parse_cutoff(t: &[&str]) -> Option<CutK> {
    match t {
        ["never"] => Some(CutK::Never),
        ["always"] => Some(CutK::Always),
        ["eq"] => Some(CutK::Eq),
        ["fn", c] => idx("c", c).map(CutK::Fn),
        ["boxed", c] => idx("c", c).map(CutK::Boxed),
        _ => None,
    }
}

fn parse_instr(t: &[&str]) -> Option<Instr> {
    match t {
        ["const", x] => parse_val(x).map(Instr::Const),
        ["lhsconst"] => Some(Instr::LhsConst),
        ["var", x] => parse_val(x).map(Instr::Var),
        ["map", f, args @ ..] => Some(Instr::Map(
            idx("f", f)?,
            args.iter().map(|a| parse_opnd(a)).collect::<Option<Vec<_>>>()?,
        )),
        ["fold", f, init, cs @ ..] => Some(Instr::Fold(
            idx("fold", f)?,
            parse_val(init)?,
            cs.iter().map(|a| parse_opnd(a)).collect::<Option<Vec<_>>>()?,
        )),
        ["mapref", p, i] => Some(Instr::MapRef(idx("p", p)?, parse_opnd(i)?)),
        ["mapold", g, i] => Some(Instr::MapOld(idx("g", g)?, parse_opnd(i)?)),
        ["bind", b, l] => Some(Instr::Bind(idx("b", b)?, parse_opnd(l)?)),
        ["zip", a, b] => Some(Instr::Zip(parse_opnd(a)?, parse_opnd(b)?)),
        ["dependon", a, b] => Some(Instr::DependOn(parse_opnd(a)?, parse_opnd(b)?)),
        ["cutoff", n, c @ ..] => Some(Instr::Cutoff(parse_opnd(n)?, parse_cutoff(c)?)),
        ["mapop", "fm", ty, m, x] => Some(Instr::MapOp(MapOp::Fm(ty.to_string(), idx("M", m)?, parse_opnd(x)?))),
        ["mapop", "fold", ty, m, rev, upd, x] => Some(Instr::MapOp(MapOp::Fold(
            ty.to_string(), idx("M", m)?, *rev == "1", *upd == "1", parse_opnd(x)?))),
        ["mapop", "merge", ty, m, x, y] => Some(Instr::MapOp(MapOp::Merge(
            ty.to_string(), idx("M", m)?, parse_opnd(x)?, parse_opnd(y)?))),
        ["mapop", "part", m, x] => Some(Instr::MapOp(MapOp::Part(idx("M", m)?, parse_opnd(x)?))),
        ["pub", sl, o] => Some(Instr::Publish(idx("s", sl)?, parse_opnd(o)?)),
        ["scopedvar", x] => parse_val(x).map(Instr::ScopedVar),
        ["memocall", m, k] => Some(Instr::MemoCall(idx("m", m)?, k.parse().ok()?)),
        ["perkey", ty, cut, fam, x] => Some(Instr::PerKey(ty.to_string(), cut.to_string(), idx("P", fam)?, parse_opnd(x)?)),
        ["expert", "sumdeps", m] => Some(Instr::Expert(0, m.parse().ok()?)),
        ["expert", "cbsum", m] => Some(Instr::Expert(1, m.parse().ok()?)),
        _ => None,
    }
}

fn parse_effect(t: &[&str]) -> Option<Effect> {
    match t {
        ["setvar", v, x] => Some(Effect::SetVar(idx("v", v)?, parse_val(x)?)),
        ["modvar", v, d] => Some(Effect::ModVar(idx("v", v)?, d.parse().ok()?)),
        ["updvar", v, d] => Some(Effect::UpdVar(idx("v", v)?, d.parse().ok()?)),
        ["replvar", v, x] => Some(Effect::ReplVar(idx("v", v)?, parse_val(x)?)),
        ["replwvar", v, d] => Some(Effect::ReplWVar(idx("v", v)?, d.parse().ok()?)),
        ["dropvar", v] => Some(Effect::DropVar(idx("v", v)?)),
        ["readobs", o] => Some(Effect::ReadObs(idx("o", o)?)),
        ["stab"] => Some(Effect::Stab),
        ["panic"] => Some(Effect::Panic),
        ["disallow", o] => Some(Effect::Disallow(idx("o", o)?)),
        ["unsub", o, t] => Some(Effect::Unsub(idx("o", o)?, idx("t", t)?)),
        ["sub", o, h] => Some(Effect::Sub(idx("o", o)?, idx("h", h)?)),
        ["xadd", e, c, cb] => Some(Effect::XAdd(parse_opnd(e)?, parse_opnd(c)?, *cb == "cb")),
        ["xrm", e, i] => Some(Effect::XRm(parse_opnd(e)?, i.parse().ok()?)),
        ["xsel", e, cb, always, ts @ ..] => Some(Effect::XSel(
            parse_opnd(e)?,
            *cb == "cb",
            *always == "always",
            ts.iter().map(|t| parse_opnd(t)).collect::<Option<Vec<_>>>()?,
        )),
        ["xstale", e] => Some(Effect::XStale(parse_opnd(e)?)),
        ["xinval", e] => Some(Effect::XInval(parse_opnd(e)?)),
        _ => None,
    }
}

fn parse_effects(s: &str) -> Option<Vec<Effect>> {
    s.split(';')
        .filter(|x| !x.trim().is_empty())
        .map(|e| parse_effect(&e.split_whitespace().collect::<Vec<_>>()))
        .collect()
}

fn parse_alt(s: &str) -> Option<Template> {
    let mut instrs = vec![];
    let mut ret = None;
    for part in s.split(';') {
        let t: Vec<&str> = part.split_whitespace().collect();
        if t.is_empty() {
            continue;
        }
        if t[0] == "ret" && t.len() == 2 {
            ret = Some(parse_opnd(t[1])?);
        } else {
            instrs.push(parse_instr(&t)?);
        }
    }
    Some(Template { instrs, ret: ret? })
}

// ------------------------------------------------------------------------------------------------
// interpreter context (shared with the closures handed to the crate)

thread_local! {
    static LAST_PANIC: RefCell<String> = RefCell::new(String::new());
    static FN_CUT: RefCell<HashMap<usize, (i64, usize)>> = RefCell::new(HashMap::new()); // c -> (m, node)
    static LOG: RefCell<Vec<String>> = RefCell::new(Vec::new());
}

thread_local! {
    static COUNTDOWN: Cell<Option<usize>> = Cell::new(None);
    static CYCLE_MISUSE: Cell<bool> = Cell::new(false);
}

/// fault injection (C13): every user closure handed to the crate calls this first
fn tick() {
    COUNTDOWN.with(|c| match c.get() {
        None => {}
        Some(k) if k <= 1 => {
            c.set(None);
            panic!("verif-user-panic");
        }
        Some(k) => c.set(Some(k - 1)),
    });
}

fn log(s: String) {
    LOG.with(|l| l.borrow_mut().push(s));
}

macro_rules! cut_fns {
    ($($name:ident $c:expr),*) => {
        $(fn $name(a: &V, b: &V) -> bool {
            tick();
            let (m, node) = FN_CUT.with(|t| t.borrow().get(&$c).copied().unwrap_or((0, usize::MAX)));
            let r = emod(to_int(a), m) == emod(to_int(b), m);
            log(format!("cut c{}@n{} ({:?},{:?})->{}", $c, node, a, b, r));
            r
        })*
        fn cut_fn_ptr(c: usize) -> Option<fn(&V, &V) -> bool> {
            match c { $($c => Some($name),)* _ => None }
        }
    };
}
cut_fns!(cutfn0 0, cutfn1 1, cutfn2 2, cutfn3 3, cutfn4 4, cutfn5 5, cutfn6 6, cutfn7 7,
         cutfn8 8, cutfn9 9, cutfn10 10, cutfn11 11, cutfn12 12, cutfn13 13, cutfn14 14, cutfn15 15);

pub struct Ctx {
    state: RefCell<Option<IncrState>>,
    defs: RefCell<Defs>,
    handles: RefCell<HashMap<usize, Incr<V>>>,
    pair_handles: RefCell<HashMap<usize, Incr<(V, V)>>>,
    top: RefCell<Vec<usize>>,
    /// how many top-level results name each node (a memoised call can return an existing node)
    handle_counts: RefCell<HashMap<usize, usize>>,
    experts: RefCell<HashMap<usize, Rc<ExpertHandle>>>,
    slots: RefCell<HashMap<usize, usize>>,
    slot_handles: RefCell<HashMap<usize, Incr<V>>>,
    memos: RefCell<HashMap<usize, Rc<RefCell<Box<dyn FnMut(i64) -> Incr<V>>>>>>,
    deps: RefCell<Vec<Option<Dependency<V>>>>,
    vars: RefCell<Vec<Option<Var<V>>>>,
    var_handles: RefCell<Vec<usize>>,
    observers: RefCell<Vec<Vec<Ob>>>,
    /// creation index of a typed node ↦ how to observe it
    typed: RefCell<HashMap<usize, Rc<dyn Fn() -> Ob>>>,
    dead_reads: RefCell<Option<Vec<String>>>,
    tokens: RefCell<Vec<SubscriptionToken>>,
}

pub struct ExpertHandle {
    node: ExpertNode<V>,
    /// current edges: (dependency name, has callback)
    edges: Rc<RefCell<Vec<(usize, bool)>>>,
    slots: Rc<RefCell<HashMap<usize, V>>>,
    script: RefCell<Vec<usize>>,
    sel: RefCell<Option<(usize, usize)>>,
}

type C = Rc<Ctx>;

/// an observer on a node whose value is not a `V` (the typed input node of a map operator), read back as a `V`
trait AnyObs {
    fn read(&self) -> Result<V, incremental::ObserverError>;
    fn disallow(&self);
}
struct TypedObs<T: incremental::Value> {
    ob: Observer<T>,
    back: Rc<dyn Fn(&T) -> V>,
}
/// Every read goes through BOTH public read paths: `try_get_value()` and the panicking shortcut `value()`.  They must
/// agree (`value()` returns `v` iff `try_get_value()` is `Ok(v)`, and panics otherwise).  If `value()` hands out a value
/// where `try_get_value()` refuses, the read shows THAT value (so the lifecycle / poisoning predicates see it); if it
/// panics where `try_get_value()` answers, the read line is marked.
fn read_both<T: incremental::Value + PartialEq>(ob: &Observer<T>) -> Result<T, incremental::ObserverError> {
    let r = ob.try_get_value();
    let saved = LAST_PANIC.with(|p| p.borrow().clone());
    let v = catch_unwind(AssertUnwindSafe(|| ob.value()));
    LAST_PANIC.with(|p| *p.borrow_mut() = saved);
    match (r, v) {
        (Ok(a), Ok(b)) => {
            if a != b {
                VALUE_MISMATCH.with(|m| m.set(true));
            }
            Ok(a)
        }
        (Err(_), Ok(b)) => Ok(b),
        (Ok(a), Err(_)) => {
            VALUE_MISMATCH.with(|m| m.set(true));
            Ok(a)
        }
        (Err(e), Err(_)) => Err(e),
    }
}

thread_local! {
    static VALUE_MISMATCH: Cell<bool> = Cell::new(false);
}

impl<T: incremental::Value + PartialEq> AnyObs for TypedObs<T> {
    fn read(&self) -> Result<V, incremental::ObserverError> {
        read_both(&self.ob).map(|t| (self.back)(&t))
    }
    fn disallow(&self) {
        self.ob.disallow_future_use()
    }
}
#[derive(Clone)]
enum Ob {
    V(Observer<V>),
    T(Rc<dyn AnyObs>),
}
impl Ob {
    fn try_get_value(&self) -> Result<V, incremental::ObserverError> {
        match self {
            Ob::V(o) => read_both(o),
            Ob::T(o) => o.read(),
        }
    }
    fn disallow_future_use(&self) {
        match self {
            Ob::V(o) => o.disallow_future_use(),
            Ob::T(o) => o.disallow(),
        }
    }
    fn as_v(&self) -> Option<Observer<V>> {
        match self {
            Ob::V(o) => Some(o.clone()),
            Ob::T(_) => None,
        }
    }
}

fn register_typed<T: incremental::Value>(ctx: &C, a: &Incr<T>, back: impl Fn(&T) -> V + 'static) {
    let weak = a.weak();
    let back: Rc<dyn Fn(&T) -> V> = Rc::new(back);
    ctx.typed.borrow_mut().insert(
        a.verif_index(),
        Rc::new(move || {
            let a = weak.upgrade().expect("typed node gone");
            Ob::T(Rc::new(TypedObs { ob: a.observe(), back: back.clone() }))
        }),
    );
}

fn expert(ctx: &C, n: usize) -> Option<Rc<ExpertHandle>> {
    ctx.experts.borrow().get(&n).cloned()
}

/// `add_dependency` / `add_dependency_with`; the name is allocated before the call, as in the model
fn expert_add(ctx: &C, n: usize, child: usize, cb: bool) -> usize {
    let Some(eh) = expert(ctx, n) else {
        panic!("verif-harness: n{} is not an expert node", n)
    };
    let dep_id = {
        let mut deps = ctx.deps.borrow_mut();
        deps.push(None);
        deps.len() - 1
    };
    let child_incr = handle(ctx, child);
    eh.edges.borrow_mut().push((dep_id, cb));
    let dep = if cb {
        let slots = eh.slots.clone();
        let me = n;
        eh.node.add_dependency_with(&child_incr, move |v: &V| {
            tick();
            log(format!("inv cb@n{} ({:?})->d{}", me, v, dep_id));
            slots.borrow_mut().insert(dep_id, v.clone());
        })
    } else {
        eh.node.add_dependency(&child_incr)
    };
    ctx.deps.borrow_mut()[dep_id] = Some(dep);
    dep_id
}

fn expert_remove(ctx: &C, n: usize, dep_id: usize) {
    let Some(eh) = expert(ctx, n) else { return };
    let dep = ctx.deps.borrow()[dep_id].clone().expect("verif-harness: dependency not created");
    eh.node.remove_dependency(dep);
    eh.edges.borrow_mut().retain(|(d, _)| *d != dep_id);
    eh.slots.borrow_mut().remove(&dep_id);
}


fn st(ctx: &C) -> IncrState {
    ctx.state.borrow().as_ref().expect("state dropped").clone()
}

fn handle(ctx: &C, n: usize) -> Incr<V> {
    if let Some(h) = ctx.handles.borrow().get(&n) {
        return h.clone();
    }
    let slot = ctx.slots.borrow().iter().find(|(_, v)| **v == n).map(|(k, _)| *k);
    if let Some(k) = slot {
        if let Some(h) = ctx.slot_handles.borrow().get(&k) {
            return h.clone();
        }
    }
    panic!("verif-harness: no handle for n{}", n)
}

fn register(ctx: &C, i: &Incr<V>) -> usize {
    let ix = i.verif_index();
    ctx.handles.borrow_mut().insert(ix, i.clone());
    ix
}

fn render_read(r: Result<V, incremental::ObserverError>) -> String {
    match r {
        Ok(v) => format!("ok {:?}", v),
        Err(e) => format!("err {:?}", e),
    }
}

fn run_effects(ctx: &C, effs: &[Effect]) {
    run_effects_arg(ctx, effs, 0)
}

fn run_effects_arg(ctx: &C, effs: &[Effect], arg: i64) {
    for e in effs {
        match e {
            // a closure writes through the handle it owns: after `dropvar` there is nothing to write through
            Effect::SetVar(v, _) | Effect::ModVar(v, _) | Effect::UpdVar(v, _) | Effect::ReplVar(v, _) | Effect::ReplWVar(v, _)
                if ctx.vars.borrow().get(*v).map_or(false, |x| x.is_none()) => {}
            Effect::SetVar(v, x) => var(ctx, *v).set(x.clone()),
            Effect::ModVar(v, d) => {
                let d = *d;
                var(ctx, *v).modify(move |x| *x = V::Int(emod(to_int(x) + d, 7)))
            }
            Effect::UpdVar(v, d) => {
                let d = *d;
                var(ctx, *v).update(move |x| V::Int(emod(to_int(&x) + d, 7)))
            }
            Effect::ReplVar(v, x) => {
                let old = var(ctx, *v).replace(x.clone());
                log(format!("note replace v{} -> {:?}", v, old));
            }
            Effect::ReplWVar(v, d) => {
                let d = *d;
                let old = var(ctx, *v).replace_with(move |x| V::Int(emod(to_int(x) + d, 7)));
                log(format!("note replacewith v{} -> {:?}", v, old));
            }
            Effect::DropVar(v) => {
                drop_var_handle(ctx, *v);
            }
            Effect::ReadObs(o) => {
                let ob = ctx.observers.borrow()[*o].first().cloned();
                match ob {
                    Some(ob) => log(format!("note read o{} {}", o, render_read(ob.try_get_value()))),
                    // every handle is gone: a retained clone would answer Disallowed
                    None => log(format!("note read o{} err Disallowed", o)),
                }
            }
            Effect::Stab => st(ctx).stabilise(),
            Effect::Panic => panic!("verif-user-panic"),
            Effect::Disallow(o) => {
                let ob = ctx.observers.borrow()[*o].first().cloned();
                if let Some(ob) = ob {
                    ob.disallow_future_use()
                }
            }
            Effect::Unsub(o, t) => {
                let ob = ctx.observers.borrow()[*o].first().cloned();
                let tok = ctx.tokens.borrow().get(*t).copied();
                if let (Some(ob), Some(tok)) = (ob.and_then(|o| o.as_v()), tok) {
                    let _ = ob.unsubscribe(tok);
                }
            }
            Effect::Sub(o, h) => {
                let _ = do_subscribe(ctx, *o, *h);
            }
            Effect::XAdd(e, c, cb) => {
                let n = resolve_ix(ctx, &[], e);
                let c = resolve_ix(ctx, &[], c);
                let dep = expert_add(ctx, n, c, *cb);
                if let Some(eh) = expert(ctx, n) {
                    eh.script.borrow_mut().push(dep);
                }
            }
            Effect::XRm(e, i) => {
                let n = resolve_ix(ctx, &[], e);
                if let Some(eh) = expert(ctx, n) {
                    let dep = {
                        let sc = eh.script.borrow();
                        if sc.is_empty() {
                            None
                        } else {
                            Some(sc[*i % sc.len()])
                        }
                    };
                    if let Some(dep) = dep {
                        eh.script.borrow_mut().retain(|d| *d != dep);
                        expert_remove(ctx, n, dep);
                    }
                }
            }
            Effect::XSel(e, cb, always, targets) => {
                let n = resolve_ix(ctx, &[], e);
                if let Some(eh) = expert(ctx, n) {
                    if !targets.is_empty() {
                        let t = resolve_ix(ctx, &[], &targets[emod(arg, targets.len() as i64) as usize]);
                        let prev = *eh.sel.borrow();
                        let same = prev.map_or(false, |(_, c)| c == t);
                        if *always || !same {
                            let dep = expert_add(ctx, n, t, *cb);
                            if let Some((d, _)) = prev {
                                expert_remove(ctx, n, d);
                            }
                            *eh.sel.borrow_mut() = Some((dep, t));
                        }
                    }
                }
            }
            Effect::XStale(e) => {
                let n = resolve_ix(ctx, &[], e);
                if let Some(eh) = expert(ctx, n) {
                    eh.node.make_stale();
                }
            }
            Effect::XInval(e) => {
                let n = resolve_ix(ctx, &[], e);
                if let Some(eh) = expert(ctx, n) {
                    eh.node.invalidate();
                }
            }
        }
    }
}

fn var(ctx: &C, v: usize) -> Var<V> {
    ctx.vars.borrow()[v].as_ref().expect("var handle dropped").clone()
}

fn drop_var_handle(ctx: &C, v: usize) -> bool {
    let had = ctx.var_handles.borrow()[v];
    if had == 0 {
        false
    } else {
        ctx.var_handles.borrow_mut()[v] = had - 1;
        if had == 1 {
            let taken = ctx.vars.borrow_mut()[v].take();
            drop(taken);
        }
        true
    }
}

fn do_subscribe(ctx: &C, o: usize, h: usize) -> Result<usize, incremental::ObserverError> {
    let ob = ctx.observers.borrow()[o].first().and_then(|o| o.as_v()).expect("observer handle gone");
    let tok_ix = Rc::new(Cell::new(usize::MAX));
    let effs = ctx.defs.borrow().hdls.get(&h).cloned().unwrap_or_default();
    let ctx2 = ctx.clone();
    let tok_ix2 = tok_ix.clone();
    let r = ob.try_subscribe(move |u: Update<&V>| {
        tick();
        let s = match u {
            Update::Initialised(v) => format!("Initialised {:?}", v),
            Update::Changed(v) => format!("Changed {:?}", v),
            Update::Invalidated => "Invalidated".to_string(),
        };
        log(format!("notif t{} {}", tok_ix2.get(), s));
        run_effects(&ctx2, &effs);
    });
    match r {
        Ok(tok) => {
            let mut toks = ctx.tokens.borrow_mut();
            toks.push(tok);
            tok_ix.set(toks.len() - 1);
            Ok(toks.len() - 1)
        }
        Err(e) => Err(e),
    }
}

fn resolve_ix(ctx: &C, loc: &[usize], o: &Opnd) -> usize {
    match o {
        Opnd::Outer(k) => *ctx
            .top
            .borrow()
            .get(*k)
            .unwrap_or_else(|| panic!("verif-harness: no top-level node n{}", k)),
        Opnd::Abs(n) => *n,
        Opnd::Slot(k) => *ctx
            .slots
            .borrow()
            .get(k)
            .unwrap_or_else(|| panic!("verif-harness: slot s{} is empty", k)),
        Opnd::Loc(j) => loc[*j],
    }
}

fn resolve(ctx: &C, loc: &[usize], o: &Opnd) -> Incr<V> {
    handle(ctx, resolve_ix(ctx, loc, o))
}

fn apply_fn(fd: &FnDef, args: &[&V]) -> V {
    let c0 = fd.coeffs.first().copied().unwrap_or(0);
    let mut acc = c0;
    for (i, a) in args.iter().enumerate() {
        let c = fd.coeffs.get(i + 1).copied().unwrap_or(1);
        acc += c * to_int(a);
    }
    V::Int(emod(acc, fd.m))
}

fn fmt_args(args: &[&V]) -> String {
    args.iter().map(|a| format!("{:?}", a)).collect::<Vec<_>>().join(",")
}

/// elaborate one instruction (top level: `loc` empty, `lhs` = Unit); returns the created node index
fn elab_instr(ctx: &C, loc: &[usize], lhs: &V, i: &Instr) -> Option<usize> {
    let state = st(ctx);
    match i {
        Instr::Const(v) => Some(register(ctx, &state.constant(v.clone()))),
        Instr::LhsConst => Some(register(ctx, &state.constant(lhs.clone()))),
        Instr::Var(v) => {
            let var = state.var(v.clone());
            let ix = register(ctx, &var.watch());
            ctx.vars.borrow_mut().push(Some(var));
            ctx.var_handles.borrow_mut().push(1);
            Some(ix)
        }
        Instr::Map(f, args) => {
            let fd = ctx.defs.borrow().fns.get(f).cloned().unwrap_or(FnDef { m: 7, ..Default::default() });
            // a single argument that is a zip node (value type (V, V))
            if let [a] = args.as_slice() {
                let an = resolve_ix(ctx, loc, a);
                let pair = ctx.pair_handles.borrow().get(&an).cloned();
                if let Some(pair) = pair {
                    let me = Rc::new(Cell::new(usize::MAX));
                    let me2 = me.clone();
                    let ctx2 = ctx.clone();
                    let f = *f;
                    let out = pair.map(move |(x, y): &(V, V)| {
                        let p = V::Pair(Rc::new((x.clone(), y.clone())));
                        tick();
                        run_effects_arg(&ctx2, &fd.effects, to_int(&p));
                        let r = apply_fn(&fd, &[&p]);
                        log(format!("inv f{}@n{} ({:?})->{:?}", f, me2.get(), p, r));
                        r
                    });
                    let ix = register(ctx, &out);
                    me.set(ix);
                    return Some(ix);
                }
            }
            let ins: Vec<Incr<V>> = args.iter().map(|a| resolve(ctx, loc, a)).collect();
            let me = Rc::new(Cell::new(usize::MAX));
            let me2 = me.clone();
            let ctx2 = ctx.clone();
            let f = *f;
            let call = move |xs: &[&V]| -> V {
                tick();
                run_effects_arg(&ctx2, &fd.effects, xs.first().map_or(0, |x| to_int(x)));
                let r = apply_fn(&fd, xs);
                log(format!("inv f{}@n{} ({})->{:?}", f, me2.get(), fmt_args(xs), r));
                r
            };
            let out = match ins.len() {
                1 => ins[0].map(move |a| call(&[a])),
                2 => ins[0].map2(&ins[1], move |a, b| call(&[a, b])),
                3 => ins[0].map3(&ins[1], &ins[2], move |a, b, c| call(&[a, b, c])),
                4 => ins[0].map4(&ins[1], &ins[2], &ins[3], move |a, b, c, d| call(&[a, b, c, d])),
                5 => ins[0].map5(&ins[1], &ins[2], &ins[3], &ins[4], move |a, b, c, d, e| call(&[a, b, c, d, e])),
                6 => ins[0].map6(&ins[1], &ins[2], &ins[3], &ins[4], &ins[5], move |a, b, c, d, e, g| {
                    call(&[a, b, c, d, e, g])
                }),
                _ => panic!("verif-harness: map arity"),
            };
            let ix = register(ctx, &out);
            me.set(ix);
            Some(ix)
        }
        Instr::Fold(f, init, cs) => {
            let (m, a, b, c) = ctx.defs.borrow().folds.get(f).copied().unwrap_or((7, 1, 1, 0));
            let ins: Vec<Incr<V>> = cs.iter().map(|x| resolve(ctx, loc, x)).collect();
            let me = Rc::new(Cell::new(usize::MAX));
            let me2 = me.clone();
            let f = *f;
            let n = ins.len();
            // the fold closure is called once per child; log one `inv` per pass, when the last child is folded
            let seen: Rc<RefCell<Vec<V>>> = Rc::new(RefCell::new(vec![]));
            let out = state.fold(ins, init.clone(), move |acc: V, x: &V| {
                if seen.borrow().is_empty() {
                    tick();
                }
                let r = V::Int(emod(a * to_int(&acc) + b * to_int(x) + c, m));
                let mut s = seen.borrow_mut();
                s.push(x.clone());
                if s.len() == n {
                    let refs: Vec<&V> = s.iter().collect();
                    log(format!("inv fold{}@n{} ({})->{:?}", f, me2.get(), fmt_args(&refs), r));
                    s.clear();
                }
                r
            });
            let ix = register(ctx, &out);
            me.set(ix);
            Some(ix)
        }
        Instr::MapRef(p, i) => {
            let kind = ctx.defs.borrow().projs.get(p).cloned().unwrap_or_else(|| "id".into());
            let input = resolve(ctx, loc, i);
            let out = match kind.as_str() {
                "fst" => input.map_ref(|v: &V| match v {
                    V::Pair(p) => &p.0,
                    o => o,
                }),
                "snd" => input.map_ref(|v: &V| match v {
                    V::Pair(p) => &p.1,
                    o => o,
                }),
                _ => input.map_ref(|v: &V| v),
            };
            Some(register(ctx, &out))
        }
        Instr::MapOld(g, i) => {
            let kind = ctx.defs.borrow().olds.get(g).cloned().unwrap_or(OldKind::Echo);
            let input = resolve(ctx, loc, i);
            let me = Rc::new(Cell::new(usize::MAX));
            let me2 = me.clone();
            let g = *g;
            let out = input.map_with_old(move |old: Option<V>, x: &V| {
                tick();
                let (new, did) = match &kind {
                    OldKind::Sum(m) => {
                        let new = V::Int(emod(old.as_ref().map_or(0, to_int) + to_int(x), *m));
                        let did = old.as_ref() != Some(&new);
                        (new, did)
                    }
                    OldKind::Echo => (x.clone(), old.as_ref() != Some(x)),
                    OldKind::Flag(b) => (x.clone(), *b),
                };
                let mut args: Vec<&V> = vec![];
                if let Some(o) = old.as_ref() {
                    args.push(o);
                }
                args.push(x);
                log(format!("inv g{}@n{} ({})->{:?},{}", g, me2.get(), fmt_args(&args), new, did));
                (new, did)
            });
            let ix = register(ctx, &out);
            me.set(ix);
            Some(ix)
        }
        Instr::Bind(b, l) => {
            let (k, alts) = ctx.defs.borrow().bodies.get(b).cloned().unwrap_or((1, vec![]));
            let lhs_node = resolve(ctx, loc, l);
            let ctx2 = ctx.clone();
            let me = Rc::new(Cell::new(usize::MAX));
            let me2 = me.clone();
            let b = *b;
            let out = lhs_node.bind(move |v: &V| {
                tick();
                // the model names the closure invocation after the lhs-change node = main - 1
                log(format!("inv b{}@n{} ({:?})->", b, me2.get().wrapping_sub(1), v));
                let i = emod(to_int(v), k as i64) as usize;
                let t = alts.get(i).cloned().expect("verif-harness: no such alternative");
                elab_template(&ctx2, &t, v)
            });
            // both nodes of the bind exist now; keep a handle on main only (lhs_change is internal)
            let ix = register(ctx, &out);
            me.set(ix);
            Some(ix)
        }
        Instr::Zip(a, b) => {
            let a = resolve(ctx, loc, a);
            let b = resolve(ctx, loc, b);
            let z = a.zip(&b);
            let ix = z.verif_index();
            ctx.pair_handles.borrow_mut().insert(ix, z);
            Some(ix)
        }
        Instr::DependOn(a, b) => {
            let a = resolve(ctx, loc, a);
            let b = resolve(ctx, loc, b);
            Some(register(ctx, &a.depend_on(&b)))
        }
        Instr::Expert(kind, m) => {
            let edges: Rc<RefCell<Vec<(usize, bool)>>> = Rc::new(RefCell::new(vec![]));
            let slots: Rc<RefCell<HashMap<usize, V>>> = Rc::new(RefCell::new(HashMap::new()));
            let me = Rc::new(Cell::new(usize::MAX));
            let (kind, m) = (*kind, *m);
            let f = (m as usize) * 10 + kind;
            let node = {
                let (edges, slots, me, me3, ctx2) = (edges.clone(), slots.clone(), me.clone(), me.clone(), ctx.clone());
                ExpertNode::<V>::new_(
                    &state.weak(),
                    move || {
                        tick();
                        let mut acc = 0i64;
                        for (d, cb) in edges.borrow().iter() {
                            if kind == 0 {
                                let dep = ctx2.deps.borrow()[*d].clone().expect("verif-harness: dependency not created");
                                acc += to_int(&dep.value_cloned());
                            } else if *cb {
                                acc += slots.borrow().get(d).map_or(0, to_int);
                            }
                        }
                        let v = V::Int(emod(acc, m));
                        log(format!("inv x{}@n{} ()->{:?}", f, me.get(), v));
                        v
                    },
                    {
                        let ctx3 = ctx.clone();
                        move |b| {
                            let stab = ctx3.state.borrow().as_ref().map_or(false, |s| s.is_stabilising());
                            log(format!("note obschange n{} {} stab={}", me3.get(), b, stab))
                        }
                    },
                )
            };
            let ix = register(ctx, &node.watch());
            me.set(ix);
            ctx.experts.borrow_mut().insert(
                ix,
                Rc::new(ExpertHandle { node, edges, slots, script: RefCell::new(vec![]), sel: RefCell::new(None) }),
            );
            Some(ix)
        }
        Instr::MapOp(op) => Some(elab_mapop(ctx, loc, op)),
        Instr::Publish(sl, o) => {
            let n = resolve_ix(ctx, loc, o);
            let h = handle(ctx, n);
            ctx.slots.borrow_mut().insert(*sl, n);
            let old = ctx.slot_handles.borrow_mut().insert(*sl, h);
            drop(old);
            None
        }
        Instr::ScopedVar(v) => {
            let var = state.var_current_scope(v.clone());
            let ix = register(ctx, &var.watch());
            ctx.vars.borrow_mut().push(Some(var));
            ctx.var_handles.borrow_mut().push(1);
            Some(ix)
        }
        Instr::MemoCall(m, key) => {
            let f = memo_fn(ctx, *m);
            let r = (f.borrow_mut())(*key);
            Some(register(ctx, &r))
        }
        Instr::PerKey(ty, cut, fam, x) => Some(elab_perkey(ctx, loc, ty, cut, *fam, x)),
        Instr::Cutoff(n, c) => {
            let node = resolve(ctx, loc, n);
            let nix = node.verif_index();
            match c {
                CutK::Never => node.set_cutoff(Cutoff::Never),
                CutK::Always => node.set_cutoff(Cutoff::Always),
                CutK::Eq => node.set_cutoff(Cutoff::PartialEq),
                CutK::Fn(c) => {
                    let m = ctx.defs.borrow().cuts.get(c).copied().unwrap_or(0);
                    FN_CUT.with(|t| t.borrow_mut().insert(*c, (m, nix)));
                    node.set_cutoff_fn(cut_fn_ptr(*c).expect("verif-harness: fn cutoff id out of range"));
                }
                CutK::Boxed(c) => {
                    let m = ctx.defs.borrow().cuts.get(c).copied().unwrap_or(0);
                    let c = *c;
                    node.set_cutoff_fn_boxed(move |a: &V, b: &V| {
                        tick();
                        let r = emod(to_int(a), m) == emod(to_int(b), m);
                        log(format!("cut c{}@n{} ({:?},{:?})->{}", c, nix, a, b, r));
                        r
                    });
                }
            }
            None
        }
    }
}

// ------------------------------------------------------------------------------------------------
// incremental-map operators on V-typed graphs: V -> concrete map type -> operator -> V

fn as_btree(v: &V) -> BTreeMap<i64, i64> {
    match v {
        V::Map(m) => (**m).clone(),
        _ => BTreeMap::new(),
    }
}

fn opt(x: Option<i64>) -> String {
    x.map_or("()".to_string(), |v| v.to_string())
}

/// the user function families (same as `mapFn*` in IncrVerif/Engine/History.lean)
fn fm_fn(p: [i64; 5], k: i64, v: i64) -> Option<i64> {
    if emod(k + v, p[2]) == p[3] { None } else { Some(emod(p[0] * v + p[1] * k, 7)) }
}
fn g_fn(p: [i64; 5], k: i64, v: i64) -> i64 {
    p[0] * v + p[1] * k
}
fn merge_fn(p: [i64; 5], e: MergeElement<&i64, &i64>) -> Option<i64> {
    match e {
        MergeElement::Left(x) => Some(*x),
        MergeElement::Right(y) => Some(emod(2 * y, 7)),
        MergeElement::Both(x, y) => {
            if emod(x + y, p[2]) == p[3] { None } else { Some(emod(x + y, 7)) }
        }
    }
}

/// API variants of one operator (the type token of the history line is `<map type>[.<variant>]`; the Lean model
/// ignores the token: all variants must behave exactly like `incr_filter_mapi` with the same user function).
/// `""` = `incr_filter_mapi`; `mapi` = `incr_mapi` (only legal when the family never filters: `p[3] >= p[2]`, otherwise
/// the plain call is used); `fmap` = `incr_filter_map`, `map` = `incr_map` on a map whose VALUES carry their key
/// (`(k, v)`; equality of values is equality of `v`), so that the key-less closures can log the key like the model.
macro_rules! fm_on {
    ($ctx:expr, $input:expr, $conv:expr, $back:expr, $p:expr, $mi:expr, $me:expr, $api:expr) => {{
        let a = $input.map($conv);
        register_typed($ctx, &a, $back);
        let (p, mi, me) = ($p, $mi, $me.clone());
        let never_filters = p[3] >= p[2] || p[3] < 0;
        let o = if $api == "mapi" && never_filters {
            a.incr_mapi(move |k: &i64, v: &i64| {
                tick();
                let r = fm_fn(p, *k, *v);
                log(format!("inv M{}.fn@n{} ({},{})->{}", mi, me.get(), k, v, opt(r)));
                r.expect("verif-harness: family filters")
            })
        } else {
            a.incr_filter_mapi(move |k: &i64, v: &i64| {
                tick();
                let r = fm_fn(p, *k, *v);
                log(format!("inv M{}.fn@n{} ({},{})->{}", mi, me.get(), k, v, opt(r)));
                r
            })
        };
        $me.set(o.verif_index());
        o.map($back)
    }};
}

macro_rules! fm_kv_on {
    ($ctx:expr, $input:expr, $conv:expr, $backkv:expr, $back:expr, $p:expr, $mi:expr, $me:expr, $api:expr) => {{
        let a = $input.map($conv);
        register_typed($ctx, &a, $backkv);
        let (p, mi, me) = ($p, $mi, $me.clone());
        let never_filters = p[3] >= p[2] || p[3] < 0;
        let o = if $api == "map" && never_filters {
            a.incr_map(move |kv: &KV| {
                tick();
                let r = fm_fn(p, kv.0, kv.1);
                log(format!("inv M{}.fn@n{} ({},{})->{}", mi, me.get(), kv.0, kv.1, opt(r)));
                r.expect("verif-harness: family filters")
            })
        } else {
            a.incr_filter_map(move |kv: &KV| {
                tick();
                let r = fm_fn(p, kv.0, kv.1);
                log(format!("inv M{}.fn@n{} ({},{})->{}", mi, me.get(), kv.0, kv.1, opt(r)));
                r
            })
        };
        $me.set(o.verif_index());
        o.map($back)
    }};
}

/// a map value that carries its key; prints (in `verif_snapshot`) and compares like the bare value
#[derive(Clone, PartialEq)]
struct KV(i64, i64);
impl fmt::Debug for KV {
    fn fmt(&self, f: &mut fmt::Formatter<'_>) -> fmt::Result {
        fmt::Debug::fmt(&self.1, f)
    }
}

fn as_btree_kv(v: &V) -> BTreeMap<i64, KV> {
    as_btree(v).into_iter().map(|(k, x)| (k, KV(k, x))).collect()
}

macro_rules! fold_on {
    ($ctx:expr, $input:expr, $conv:expr, $back:expr, $p:expr, $mi:expr, $me:expr, $rev:expr, $upd:expr, $api:expr) => {{
        let a = $input.map($conv);
        register_typed($ctx, &a, $back);
        let (p, mi) = ($p, $mi);
        let (me1, me2, me3) = ($me.clone(), $me.clone(), $me.clone());
        let add = move |acc: i64, k: &i64, v: &i64| {
            tick();
            let r = acc + g_fn(p, *k, *v);
            log(format!("inv M{}.add@n{} ({},{})->{}", mi, me1.get(), k, v, r));
            r
        };
        let remove = move |acc: i64, k: &i64, v: &i64| {
            tick();
            let r = acc - g_fn(p, *k, *v);
            log(format!("inv M{}.remove@n{} ({},{})->{}", mi, me2.get(), k, v, r));
            r
        };
        let update = move |acc: i64, k: &i64, old: &i64, new: &i64| {
            tick();
            let r = acc - g_fn(p, *k, *old) + g_fn(p, *k, *new);
            log(format!("inv M{}.update@n{} ({},{},{})->{}", mi, me3.get(), k, old, new, r));
            r
        };
        // `cf` = the builder `ClosureFold::new_add_remove(..)[.update(..)].revert_to_init_when_empty(..)`,
        // `cfn` = `ClosureFold::new().add(..).remove(..)…` handed to `incr_unordered_fold_with`; same behaviour required
        let o = match ($api, $upd) {
            ("cf", true) => a.incr_unordered_fold_with(
                p[4],
                ClosureFold::new_add_remove(add, remove).update(update).revert_to_init_when_empty($rev),
            ),
            ("cf", false) => a.incr_unordered_fold_with(
                p[4],
                ClosureFold::new_add_remove(add, remove).revert_to_init_when_empty($rev),
            ),
            ("cfn", true) => a.incr_unordered_fold_with(
                p[4],
                ClosureFold::new().add(add).remove(remove).update(update).revert_to_init_when_empty($rev),
            ),
            ("cfn", false) => a.incr_unordered_fold_with(
                p[4],
                ClosureFold::new().add(add).remove(remove).revert_to_init_when_empty($rev),
            ),
            (_, true) => a.incr_unordered_fold_update(p[4], add, remove, update, $rev),
            (_, false) => a.incr_unordered_fold(p[4], add, remove, $rev),
        };
        $me.set(o.verif_index());
        o.map(|r: &i64| V::Int(*r))
    }};
}

fn elab_mapop(ctx: &C, loc: &[usize], op: &MapOp) -> usize {
    let me = Rc::new(Cell::new(usize::MAX));
    let params = |m: &usize| ctx.defs.borrow().mfns.get(m).copied().unwrap_or([1, 0, 2, 9, 0]);
    let back_bt = |m: &BTreeMap<i64, i64>| V::Map(Rc::new(m.clone()));
    let back_rc = |m: &Rc<BTreeMap<i64, i64>>| V::Map(m.clone());
    let back_ord = |m: &OrdMap<i64, i64>| V::Map(Rc::new(m.iter().map(|(k, v)| (*k, *v)).collect()));
    let out: Incr<V> = match op {
        MapOp::Fm(ty, m, x) => {
            let input = resolve(ctx, loc, x);
            let p = params(m);
            let (ty, api) = ty.split_once('.').unwrap_or((ty.as_str(), ""));
            let back_bt_kv = |m: &BTreeMap<i64, KV>| V::Map(Rc::new(m.iter().map(|(k, kv)| (*k, kv.1)).collect()));
            let back_rc_kv = |m: &Rc<BTreeMap<i64, KV>>| V::Map(Rc::new(m.iter().map(|(k, kv)| (*k, kv.1)).collect()));
            let back_ord_kv = |m: &OrdMap<i64, KV>| V::Map(Rc::new(m.iter().map(|(k, kv)| (*k, kv.1)).collect()));
            match (ty, api) {
                ("bt", "map") | ("bt", "fmap") => fm_kv_on!(ctx, input, |v: &V| as_btree_kv(v), back_bt_kv, back_bt, p, *m, me, api),
                ("rc", "map") | ("rc", "fmap") => fm_kv_on!(ctx, input, |v: &V| Rc::new(as_btree_kv(v)), back_rc_kv, back_rc, p, *m, me, api),
                (_, "map") | (_, "fmap") => fm_kv_on!(ctx, input, |v: &V| as_btree_kv(v).into_iter().collect::<OrdMap<i64, KV>>(), back_ord_kv, back_ord, p, *m, me, api),
                ("bt", _) => fm_on!(ctx, input, |v: &V| as_btree(v), back_bt, p, *m, me, api),
                ("rc", _) => fm_on!(ctx, input, |v: &V| Rc::new(as_btree(v)), back_rc, p, *m, me, api),
                _ => fm_on!(ctx, input, |v: &V| as_btree(v).into_iter().collect::<OrdMap<i64, i64>>(), back_ord, p, *m, me, api),
            }
        }
        MapOp::Fold(ty, m, rev, upd, x) => {
            let input = resolve(ctx, loc, x);
            let p = params(m);
            let (ty, api) = ty.split_once('.').unwrap_or((ty.as_str(), ""));
            match ty {
                "bt" => fold_on!(ctx, input, |v: &V| as_btree(v), back_bt, p, *m, me, *rev, *upd, api),
                "rc" => fold_on!(ctx, input, |v: &V| Rc::new(as_btree(v)), back_rc, p, *m, me, *rev, *upd, api),
                _ => fold_on!(ctx, input, |v: &V| as_btree(v).into_iter().collect::<OrdMap<i64, i64>>(), back_ord, p, *m, me, *rev, *upd, api),
            }
        }
        MapOp::Merge(ty, m, x, y) => {
            let (ix, iy) = (resolve(ctx, loc, x), resolve(ctx, loc, y));
            let p = params(m);
            let (mi, me2) = (*m, me.clone());
            let logm = move |k: &i64, e: &MergeElement<&i64, &i64>, r: Option<i64>| {
                let (a, b) = match e {
                    MergeElement::Left(x) => (Some(**x), None),
                    MergeElement::Right(y) => (None, Some(**y)),
                    MergeElement::Both(x, y) => (Some(**x), Some(**y)),
                };
                log(format!("inv M{}.merge@n{} ({},{},{})->{}", mi, me2.get(), k, opt(a), opt(b), opt(r)));
            };
            match ty.as_str() {
                "bt" => {
                    let a = ix.map(|v: &V| as_btree(v));
                    let b = iy.map(|v: &V| as_btree(v));
                    let o = a.incr_merge(&b, move |k: &i64, e: MergeElement<&i64, &i64>| {
                        tick();
                        let r = merge_fn(p, e);
                        logm(k, &e, r);
                        r
                    });
                    me.set(o.verif_index());
                    o.map(back_bt)
                }
                _ => {
                    let a = ix.map(|v: &V| as_btree(v).into_iter().collect::<OrdMap<i64, i64>>());
                    let b = iy.map(|v: &V| as_btree(v).into_iter().collect::<OrdMap<i64, i64>>());
                    let o = a.incr_merge(&b, move |k: &i64, e: MergeElement<&i64, &i64>| {
                        tick();
                        let r = merge_fn(p, e);
                        logm(k, &e, r);
                        r
                    });
                    me.set(o.verif_index());
                    o.map(back_ord)
                }
            }
        }
        MapOp::Part(m, x) => {
            let input = resolve(ctx, loc, x);
            let p = params(m);
            let (mi, me2) = (*m, me.clone());
            let a = input.map(|v: &V| as_btree(v).into_iter().collect::<OrdMap<i64, i64>>());
            register_typed(ctx, &a, back_ord);
            // (`incr_partition`, the predicate wrapper of this call, keeps `v` on both sides: the family's `+ 1` on the right
            // side is not expressible through it and its node value is part of the compared snapshot, so it is not used)
            {
                let o = a.incr_partition_mapi(move |k: &i64, v: &i64| {
                    tick();
                    let r = if emod(k + v, p[2]) == p[3] { Either::Left(*v) } else { Either::Right(emod(v + 1, 7)) };
                    let s = match &r {
                        Either::Left(a) => format!("L{}", a),
                        Either::Right(b) => format!("R{}", b),
                    };
                    log(format!("inv M{}.fn@n{} ({},{})->{}", mi, me2.get(), k, v, s));
                    r
                });
                me.set(o.verif_index());
                o.map(move |(l, r): &(OrdMap<i64, i64>, OrdMap<i64, i64>)| {
                    V::Pair(Rc::new((
                        V::Map(Rc::new(l.iter().map(|(k, v)| (*k, *v)).collect())),
                        V::Map(Rc::new(r.iter().map(|(k, v)| (*k, *v)).collect())),
                    )))
                })
            }
        }
    };
    register(ctx, &out)
}

fn elab_perkey(ctx: &C, loc: &[usize], ty: &str, cut: &str, fam: usize, x: &Opnd) -> usize {
    let input = resolve(ctx, loc, x);
    let tmpl = ctx.defs.borrow().pks.get(&fam).cloned().expect("verif-harness: pk not defined");
    let ctx2 = ctx.clone();
    let f = move |key: &i64, inc: Incr<V>| -> Incr<V> {
        tick();
        let ix = register(&ctx2, &inc);
        log(format!("note pk P{} key {} node n{}", fam, key, ix));
        let r = elab_template_with(&ctx2, &tmpl, &V::Int(*key), vec![ix]);
        // the per-key input handle dies with the closure call unless the built graph references it
        let h = ctx2.handles.borrow_mut().remove(&ix);
        drop(h);
        r
    };
    let cutoff: Option<Cutoff<V>> = match cut {
        "never" => Some(Cutoff::Never),
        "always" => Some(Cutoff::Always),
        "eq" => Some(Cutoff::PartialEq),
        _ => None,
    };
    let wrap = |v: &V| -> BTreeMap<i64, V> { as_btree(v).into_iter().map(|(k, x)| (k, V::Int(x))).collect() };
    let out: Incr<V> = match ty {
        "bt" => {
            let a = input.map(move |v: &V| wrap(v));
            let o = match cutoff {
                Some(c) => a.incr_mapi_cutoff(f, c),
                None => a.incr_mapi_(f),
            };
            o.map(|m: &BTreeMap<i64, V>| V::Map(Rc::new(m.iter().map(|(k, v)| (*k, to_int(v))).collect())))
        }
        _ => {
            let a = input.map(move |v: &V| wrap(v).into_iter().collect::<OrdMap<i64, V>>());
            let o = match cutoff {
                Some(c) => IncrOrdMap::incr_mapi_cutoff(&a, f, c),
                None => IncrOrdMap::incr_mapi_(&a, f),
            };
            o.map(|m: &OrdMap<i64, V>| V::Map(Rc::new(m.iter().map(|(k, v)| (*k, to_int(v))).collect())))
        }
    };
    register(ctx, &out)
}

fn elab_template(ctx: &C, t: &Template, lhs: &V) -> Incr<V> {
    elab_template_with(ctx, t, lhs, vec![])
}

/// `init`: nodes that are the closure's first locals (`%0`, …), e.g. the per-key input of a per-key function
fn elab_template_with(ctx: &C, t: &Template, lhs: &V, init: Vec<usize>) -> Incr<V> {
    let before: std::collections::HashSet<usize> = ctx.handles.borrow().keys().copied().collect();
    let before_p: std::collections::HashSet<usize> = ctx.pair_handles.borrow().keys().copied().collect();
    let mut loc: Vec<usize> = init;
    for i in &t.instrs {
        if let Some(n) = elab_instr(ctx, &loc, lhs, i) {
            loc.push(n);
        }
    }
    let ret = resolve(ctx, &loc, &t.ret);
    // handles on the nodes built by the closure die with the closure call, as in ordinary user code:
    // what stays alive is what the returned node (or the engine, or a published slot) still references
    for n in &loc {
        if !before.contains(n) {
            let h = ctx.handles.borrow_mut().remove(n);
            drop(h);
        }
        if !before_p.contains(n) {
            let p = ctx.pair_handles.borrow_mut().remove(n);
            drop(p);
        }
    }
    ret
}

fn memo_fn(ctx: &C, m: usize) -> Rc<RefCell<Box<dyn FnMut(i64) -> Incr<V>>>> {
    if let Some(f) = ctx.memos.borrow().get(&m) {
        return f.clone();
    }
    // created on first use at top level: the creation scope is the scope current at that moment
    let tmpl = ctx.defs.borrow().memo_defs.get(&m).cloned().expect("verif-harness: memo not defined");
    let ctx2 = ctx.clone();
    let f = st(ctx).weak_memoize_fn(move |key: i64| {
        tick();
        log(format!("note memo m{} invoked {}", m, key));
        elab_template(&ctx2, &tmpl, &V::Int(key))
    });
    let boxed: Rc<RefCell<Box<dyn FnMut(i64) -> Incr<V>>>> = Rc::new(RefCell::new(Box::new(f)));
    ctx.memos.borrow_mut().insert(m, boxed.clone());
    boxed
}

// ------------------------------------------------------------------------------------------------
// panic classes (same names as `panicClass` in IncrVerif/Engine/Run.lean)

fn panic_class(msg: &str) -> &'static str {
    if msg.contains("node with too large height") {
        "height-limit"
    } else if msg.contains("adding edge made graph cyclic") {
        "cyclic"
    } else if msg.contains("verif-user-panic") {
        "user"
    } else if msg.contains("left: Stabilising") || msg.contains("left: RunningOnUpdateHandlers") {
        "status"
    } else if msg.contains("whose defining bind is not necessary") {
        "bind-not-necessary"
    } else if msg.contains("cannot set max_height_allowed less than max height already seen") {
        "below-max-seen"
    } else if msg.contains("tried to set_max_height_allowed during stabilisation") {
        "during-stabilisation"
    } else if msg.contains("verif-harness") {
        "harness-error"
    } else {
        "other"
    }
}

// ------------------------------------------------------------------------------------------------
// actions

fn action(ctx: &C, toks: &[&str]) -> String {
    match toks {
        ["observe", n] => {
            let opnd = parse_opnd(n).unwrap();
            let typed = match &opnd {
                Opnd::Abs(k) => ctx.typed.borrow().get(k).cloned().map(|f| (*k, f)),
                _ => None,
            };
            let (nix, ob) = match typed {
                Some((k, f)) => (k, f()),
                None => {
                    let node = resolve(ctx, &[], &opnd);
                    (node.verif_index(), Ob::V(node.observe()))
                }
            };
            let mut obs = ctx.observers.borrow_mut();
            obs.push(vec![ob]);
            log(format!("note observe o{} n{}", obs.len() - 1, nix));
            format!("ok o{}", obs.len() - 1)
        }
        ["cloneobs", o] => {
            let o = idx("o", o).unwrap();
            let mut obs = ctx.observers.borrow_mut();
            let c = obs[o][0].clone();
            obs[o].push(c);
            "ok".into()
        }
        ["dropobs", o] => {
            let o = idx("o", o).unwrap();
            let popped = ctx.observers.borrow_mut()[o].pop();
            match popped {
                Some(ob) => {
                    drop(ob);
                    "ok".into()
                }
                None => "noop".into(),
            }
        }
        ["disallow", o] => {
            let o = idx("o", o).unwrap();
            let ob = ctx.observers.borrow()[o].first().cloned();
            match ob {
                Some(ob) => {
                    ob.disallow_future_use();
                    "ok".into()
                }
                None => "noop".into(),
            }
        }
        ["subscribe", o, h] => match do_subscribe(ctx, idx("o", o).unwrap(), idx("h", h).unwrap()) {
            Ok(t) => format!("ok t{}", t),
            Err(e) => format!("err {:?}", e),
        },
        ["unsubscribe", o, t] => {
            let ob = ctx.observers.borrow()[idx("o", o).unwrap()].first().and_then(|o| o.as_v());
            let tok = ctx.tokens.borrow().get(idx("t", t).unwrap()).copied();
            match (ob, tok) {
                (Some(ob), Some(tok)) => match ob.unsubscribe(tok) {
                    Ok(()) => "ok".into(),
                    Err(e) => format!("err {:?}", e),
                },
                _ => "noop".into(),
            }
        }
        ["stateunsub", t] => {
            let tok = ctx.tokens.borrow().get(idx("t", t).unwrap()).copied();
            match tok {
                Some(tok) => {
                    st(ctx).unsubscribe(tok);
                    "ok".into()
                }
                None => "noop".into(),
            }
        }
        ["set", v, x] => {
            var(ctx, idx("v", v).unwrap()).set(parse_val(x).unwrap());
            "ok".into()
        }
        ["modify", v, d] => {
            let d: i64 = d.parse().unwrap();
            var(ctx, idx("v", v).unwrap()).modify(move |x| *x = V::Int(emod(to_int(x) + d, 7)));
            "ok".into()
        }
        ["update", v, d] => {
            let d: i64 = d.parse().unwrap();
            var(ctx, idx("v", v).unwrap()).update(move |x| V::Int(emod(to_int(&x) + d, 7)));
            "ok".into()
        }
        ["replace", v, x] => {
            let old = var(ctx, idx("v", v).unwrap()).replace(parse_val(x).unwrap());
            format!("ok {:?}", old)
        }
        ["replacewith", v, d] => {
            let d: i64 = d.parse().unwrap();
            let old = var(ctx, idx("v", v).unwrap()).replace_with(move |x| V::Int(emod(to_int(x) + d, 7)));
            format!("ok {:?}", old)
        }
        ["get", v] => format!("ok {:?}", var(ctx, idx("v", v).unwrap()).get()),
        ["dropvar", v] => {
            if drop_var_handle(ctx, idx("v", v).unwrap()) {
                "ok".into()
            } else {
                "noop".into()
            }
        }
        ["adddep", e, c, cb] => {
            let n = resolve_ix(ctx, &[], &parse_opnd(e).unwrap());
            let c = resolve_ix(ctx, &[], &parse_opnd(c).unwrap());
            format!("ok d{}", expert_add(ctx, n, c, *cb == "cb"))
        }
        ["dropall"] => {
            // drop every handle, then the state: none of it may panic (a double panic aborts the process)
            ctx.typed.borrow_mut().clear();
            let vars = std::mem::take(&mut *ctx.vars.borrow_mut());
            drop(vars);
            let ex = std::mem::take(&mut *ctx.experts.borrow_mut());
            drop(ex);
            let deps = std::mem::take(&mut *ctx.deps.borrow_mut());
            drop(deps);
            let ph = std::mem::take(&mut *ctx.pair_handles.borrow_mut());
            drop(ph);
            let hs = std::mem::take(&mut *ctx.handles.borrow_mut());
            drop(hs);
            let sh = std::mem::take(&mut *ctx.slot_handles.borrow_mut());
            drop(sh);
            let ms = std::mem::take(&mut *ctx.memos.borrow_mut());
            drop(ms);
            let st = ctx.state.borrow_mut().take();
            drop(st);
            // the observer handles outlive the state for a moment: what they answer now is shown in this action's
            // `read` line (a dropped engine answers ObservingInvalid), then they are dropped too
            let dead: Vec<String> = ctx
                .observers
                .borrow()
                .iter()
                .enumerate()
                .map(|(o, clones)| match clones.first() {
                    Some(ob) => format!("o{}={}", o, render_read(ob.try_get_value())),
                    None => format!("o{}=gone", o),
                })
                .collect();
            *ctx.dead_reads.borrow_mut() = Some(dead);
            let obs: Vec<Vec<Ob>> =
                ctx.observers.borrow_mut().iter_mut().map(std::mem::take).collect();
            drop(obs);
            if CYCLE_MISUSE.with(|c| c.get()) {
                "ok live=cycle".into()
            } else {
                format!("ok live={}", incremental::verif_live_nodes())
            }
        }
        ["expectpanic", cls @ ..] => {
            if cls.contains(&"cyclic") {
                // a dependency cycle closed through binds is a cycle of strong references: it leaks by construction
                CYCLE_MISUSE.with(|c| c.set(true));
            }
            "ok".into()
        }
        ["drophandle", n] => {
            let ix = resolve_ix(ctx, &[], &parse_opnd(n).unwrap());
            let left = {
                let mut hc = ctx.handle_counts.borrow_mut();
                match hc.get_mut(&ix) {
                    Some(c) if *c > 0 => {
                        *c -= 1;
                        Some(*c)
                    }
                    _ => None,
                }
            };
            match left {
                None => "noop".into(),
                Some(0) => {
                    let h = ctx.handles.borrow_mut().remove(&ix);
                    let p = ctx.pair_handles.borrow_mut().remove(&ix);
                    let e = ctx.experts.borrow_mut().remove(&ix);
                    drop(h);
                    drop(p);
                    drop(e);
                    "ok".into()
                }
                Some(_) => "ok".into(),
            }
        }
        ["arm", k] => {
            COUNTDOWN.with(|c| c.set(Some(k.parse().unwrap())));
            "ok".into()
        }
        ["setmaxheight", k] => {
            st(ctx).set_max_height_allowed(k.parse().unwrap());
            "ok".into()
        }
        ["stabilise"] => {
            st(ctx).stabilise();
            "ok".into()
        }
        ["isstable"] => format!("ok {}", st(ctx).is_stable()),
        ["stats"] => "ok".into(),
        other => match parse_instr(other) {
            Some(i) => match elab_instr(ctx, &[], &V::Unit, &i) {
                Some(n) => {
                    ctx.top.borrow_mut().push(n);
                    *ctx.handle_counts.borrow_mut().entry(n).or_insert(0) += 1;
                    format!("ok #{}", n)
                }
                None => "ok".into(),
            },
            None => format!("bad-op {}", other.join(" ")),
        },
    }
}

pub fn run() {
    std::panic::set_hook(Box::new(|info| {
        let msg = if let Some(s) = info.payload().downcast_ref::<&str>() {
            s.to_string()
        } else if let Some(s) = info.payload().downcast_ref::<String>() {
            s.clone()
        } else {
            "unknown".to_string()
        };
        let loc = info.location().map(|l| format!("{}:{}", l.file(), l.line())).unwrap_or_default();
        LAST_PANIC.with(|p| *p.borrow_mut() = format!("{} @ {}", msg, loc));
    }));
    let mut text = String::new();
    std::io::stdin().read_to_string(&mut text).unwrap();
    let verbose_panics = std::env::var("VERIF_PANIC_MSG").is_ok();
    let mut max_height = 128usize;
    let mut lines: Vec<&str> = vec![];
    for l in text.lines() {
        let l = l.trim();
        if l.is_empty() || l.starts_with("# ") || l == "#" {
            continue;
        }
        let t: Vec<&str> = l.split_whitespace().collect();
        if t[0] == "maxheight" {
            max_height = t[1].parse().unwrap();
        } else if t[0] == "cfg" {
            // the build profile decides; the line is for the model
        } else {
            lines.push(l);
        }
    }
    let ctx: C = Rc::new(Ctx {
        state: RefCell::new(Some(IncrState::new_with_height(max_height))),
        defs: RefCell::new(Defs::default()),
        handles: RefCell::new(HashMap::new()),
        pair_handles: RefCell::new(HashMap::new()),
        top: RefCell::new(vec![]),
        handle_counts: RefCell::new(HashMap::new()),
        experts: RefCell::new(HashMap::new()),
        slots: RefCell::new(HashMap::new()),
        slot_handles: RefCell::new(HashMap::new()),
        memos: RefCell::new(HashMap::new()),
        deps: RefCell::new(vec![]),
        vars: RefCell::new(vec![]),
        var_handles: RefCell::new(vec![]),
        observers: RefCell::new(vec![]),
        typed: RefCell::new(HashMap::new()),
        dead_reads: RefCell::new(None),
        tokens: RefCell::new(vec![]),
    });
    let out = std::io::stdout();
    let mut out = std::io::BufWriter::new(out.lock());
    use std::io::Write;
    let mut ai = 0usize;
    for l in lines {
        let t: Vec<&str> = l.split_whitespace().collect();
        // definitions
        let mut is_def = true;
        {
            let mut d = ctx.defs.borrow_mut();
            match t.as_slice() {
                ["fn", f, "lin", m, cs @ ..] => {
                    let e = d.fns.entry(idx("f", f).unwrap()).or_default();
                    e.m = m.parse().unwrap();
                    e.coeffs = cs.iter().map(|c| c.parse().unwrap()).collect();
                }
                ["fneff", f, rest @ ..] => {
                    let effs = parse_effects(&rest.join(" ")).expect("effects");
                    let e = d.fns.entry(idx("f", f).unwrap()).or_insert(FnDef { m: 7, ..Default::default() });
                    e.effects.extend(effs);
                }
                ["folddef", f, m, a, b, c] => {
                    d.folds.insert(
                        idx("fold", f).unwrap(),
                        (m.parse().unwrap(), a.parse().unwrap(), b.parse().unwrap(), c.parse().unwrap()),
                    );
                }
                ["proj", p, k] => {
                    d.projs.insert(idx("p", p).unwrap(), k.to_string());
                }
                ["old", g, "sum", m] => {
                    d.olds.insert(idx("g", g).unwrap(), OldKind::Sum(m.parse().unwrap()));
                }
                ["old", g, "echo"] => {
                    d.olds.insert(idx("g", g).unwrap(), OldKind::Echo);
                }
                ["old", g, "flag", b] => {
                    d.olds.insert(idx("g", g).unwrap(), OldKind::Flag(*b == "1"));
                }
                ["cut", c, "eqmod", m] => {
                    d.cuts.insert(idx("c", c).unwrap(), m.parse().unwrap());
                }
                ["body", b, k, rest @ ..] => {
                    let alts: Vec<Template> =
                        rest.join(" ").split('|').map(|a| parse_alt(a).expect("alt")).collect();
                    d.bodies.insert(idx("b", b).unwrap(), (k.parse().unwrap(), alts));
                }
                ["mfn", m, a, b, mm, r, c] => {
                    d.mfns.insert(
                        idx("M", m).unwrap(),
                        [a.parse().unwrap(), b.parse().unwrap(), mm.parse().unwrap(), r.parse().unwrap(), c.parse().unwrap()],
                    );
                }
                ["memo", m, rest @ ..] => {
                    d.memo_defs.insert(idx("m", m).unwrap(), parse_alt(&rest.join(" ")).expect("memo template"));
                }
                ["pk", pk, rest @ ..] => {
                    d.pks.insert(idx("P", pk).unwrap(), parse_alt(&rest.join(" ")).expect("pk template"));
                }
                ["hdl", h, rest @ ..] => {
                    d.hdls.insert(idx("h", h).unwrap(), parse_effects(&rest.join(" ")).expect("effects"));
                }
                _ => is_def = false,
            }
        }
        if is_def {
            if t[0] == "memo" {
                // the memoised function is created here, at top level: its creation scope is Top
                let _ = memo_fn(&ctx, idx("m", t[1]).unwrap());
            }
            continue;
        }
        LOG.with(|l| l.borrow_mut().clear());
        let r = catch_unwind(AssertUnwindSafe(|| action(&ctx, &t)));
        let api = match r {
            Ok(s) => s,
            Err(_) => {
                let msg = LAST_PANIC.with(|p| p.borrow().clone());
                if verbose_panics {
                    format!("panic {} [{}]", panic_class(&msg), msg.replace('\n', " "))
                } else {
                    format!("panic {}", panic_class(&msg))
                }
            }
        };
        writeln!(out, "{} api {}", ai, api).unwrap();
        LOG.with(|l| {
            for e in l.borrow().iter() {
                writeln!(out, "{} ev {}", ai, e).unwrap();
            }
        });
        // reads
        let state_alive = ctx.state.borrow().is_some();
        let dead_reads = ctx.dead_reads.borrow_mut().take();
        let reads: Vec<String> = if let Some(d) = dead_reads {
            d
        } else {
            let obs = ctx.observers.borrow();
            obs.iter()
                .enumerate()
                .map(|(o, clones)| match clones.first() {
                    Some(ob) => format!("o{}={}", o, render_read(ob.try_get_value())),
                    None => format!("o{}=gone", o),
                })
                .collect()
        };
        let mism = if VALUE_MISMATCH.with(|m| m.replace(false)) { " value()-disagrees-with-try_get_value" } else { "" };
        writeln!(out, "{} read {}{}", ai, reads.join(" "), mism).unwrap();
        let state = ctx.state.borrow().as_ref().cloned();
        if let Some(state) = state {
            // the hooks walk the representation: on a corrupted graph they may themselves hit an unwrap
            let lines = catch_unwind(AssertUnwindSafe(|| {
                let mut v: Vec<String> = vec![];
                for l in state.verif_snapshot() {
                    v.push(l.replace(", ", ",").replace(": ", ":"));
                }
                for l in state.verif_audit() {
                    v.push(format!("audit {}", l));
                }
                v
            }));
            match lines {
                Ok(v) => {
                    for l in v {
                        writeln!(out, "{} {}", ai, l).unwrap();
                    }
                }
                Err(_) => {
                    let msg = LAST_PANIC.with(|p| p.borrow().clone());
                    writeln!(out, "{} audit the engine's data structures cannot be walked: {}", ai, msg.replace('\n', " ")).unwrap();
                }
            }
        }
        ai += 1;
    }
    out.flush().unwrap();
    // leak the context: closures and handles form reference cycles by construction
    std::mem::forget(ctx);
}
