#!/bin/sh
# usage: confirm_seed.sh <worktree> <k>   — confirms mutation_<k>.diff + tests/demo_mutation_<k>.rs in the scratch worktree
wt=$1; k=$2
cd $wt || exit 2
git checkout -q -- src incremental-map/src 2>/dev/null
echo "== without the change: demo"; cargo test --offline --test demo_mutation_$k 2>&1 | grep -E "^test result|error(\[|:)" | head -3
git apply mutation_$k.diff || { echo "diff does not apply"; exit 2; }
echo "== with the change: demo"; cargo test --offline --test demo_mutation_$k 2>&1 | grep -E "^test result|error(\[|:)" | head -3
echo "== with the change: existing suite"; cargo test --workspace --offline --no-fail-fast 2>&1 | grep -E "^test result" | grep -v "demo_mutation" | awk '{p+=$4; f+=$6} END {print "passed", p, "failed", f}'
cargo test --workspace --offline --no-fail-fast 2>&1 | grep -E "^     Running|^test result" | grep -B1 "FAILED" | head
git checkout -q -- src incremental-map/src
