"""C18 — symmetric diff and ordered merge.

1. proof obligations: IncrVerif.Props.C18 (state machines = textbook diff/merge; membership,
   ascending order, empty iff equal) for all sorted maps of any size.
2. correspondence: the Lean state machines and the real crate (public `symmetric_fold` on BTreeMap,
   Rc<BTreeMap>, OrdMap; hooks for the crate-private MergeOnce / MergeOnceWith / SymmetricDiffOwned)
   on the same cases, exhaustively over a small key/value domain and randomly over larger maps.
3. direct predicate: `Spec.holdsDiff` / `holdsMerge` / `holdsKeyMerge` (the statements of the theorems as
   decidable checks) evaluated by the Lean driver on the implementation's output.
"""
import itertools
import random

import common

MODULES = ["IncrVerif.Props.C18"]


def fmt_map(m):
    return ",".join(f"{k}:{v}" for k, v in m) if m else "-"


def all_maps(keys, vals):
    res = []
    for choice in itertools.product([None] + list(vals), repeat=len(keys)):
        res.append([(k, v) for k, v in zip(keys, choice) if v is not None])
    return res


def gen_cases(tier, seed):
    rng = random.Random(seed)
    cases = []
    nkeys = 4 if tier == "quick" else 6
    maps = all_maps(list(range(1, nkeys + 1)), [0, 1])
    exhaustive_pairs = 0
    for a in maps:
        for b in maps:
            exhaustive_pairs += 1
            fa, fb = fmt_map(a), fmt_map(b)
            if tier == "quick" or nkeys <= 4:
                for ty in ("bt", "rc", "ord"):
                    cases.append(f"sd {ty} {fa} | {fb}")
                cases.append(f"sdo {fa} | {fb}")
            else:
                # thorough: every pair on one map type in rotation + owned, all pairs covered per type
                # over the run because the rotation is keyed on the pair index
                ty = ("bt", "rc", "ord")[exhaustive_pairs % 3]
                cases.append(f"sd {ty} {fa} | {fb}")
                if exhaustive_pairs % 4 == 0:
                    cases.append(f"sdo {fa} | {fb}")
    # MergeOnce on all pairs of subsets of a key set
    ks = list(range(1, (5 if tier == "quick" else 7) + 1))
    subsets = [[k for k, c in zip(ks, ch) if c] for ch in itertools.product([0, 1], repeat=len(ks))]
    for a in subsets:
        for b in subsets:
            cases.append("mo " + (",".join(map(str, a)) or "-") + " | " + (",".join(map(str, b)) or "-"))
    # MergeOnceWith on all pairs of tagged streams
    ks2 = list(range(1, (4 if tier == "quick" else 6) + 1))
    subs2 = [[k for k, c in zip(ks2, ch) if c] for ch in itertools.product([0, 1], repeat=len(ks2))]
    for a in subs2:
        for b in subs2:
            cases.append("mow " + fmt_map([(k, 0) for k in a]) + " | " + fmt_map([(k, 1) for k in b]))
    n_exh = len(cases)
    # random larger maps
    n_rand = 2000 if tier == "quick" else 60000
    for _ in range(n_rand):
        size = rng.choice([0, 1, 3, 10, 40, 120])
        dom = max(4, size * 2)

        def rmap():
            n = rng.randint(0, size)
            ks_ = sorted(rng.sample(range(-dom, dom), min(n, 2 * dom)))
            return [(k, rng.randint(0, 3)) for k in ks_]
        a = rmap()
        mode = rng.random()
        if mode < 0.15:
            b = list(a)
        elif mode < 0.6:
            # small edit distance: the case the operators live on
            b = dict(a)
            for _ in range(rng.randint(1, 4)):
                k = rng.randint(-dom, dom)
                if rng.random() < 0.4:
                    b.pop(k, None)
                else:
                    b[k] = rng.randint(0, 3)
            b = sorted(b.items())
        else:
            b = rmap()
        ty = rng.choice(["bt", "rc", "ord", "owned", "mow", "mo"])
        if ty == "owned":
            cases.append(f"sdo {fmt_map(a)} | {fmt_map(b)}")
        elif ty == "mow":
            cases.append(f"mow {fmt_map(a)} | {fmt_map(b)}")
        elif ty == "mo":
            cases.append("mo " + (",".join(str(k) for k, _ in a) or "-") + " | " + (",".join(str(k) for k, _ in b) or "-"))
        else:
            cases.append(f"sd {ty} {fmt_map(a)} | {fmt_map(b)}")
    return cases, n_exh, exhaustive_pairs, nkeys


def run(chk):
    proof = common.proof_obligations(chk.prop, MODULES)
    okd, logd = common.build_lean(["driver"])
    okh, harness, logh = common.build_harness("debug")
    if not okd or not okh:
        p = chk.write_replay("build", f"# property={chk.prop}\n# build failure\n" + (logd if not okd else logh)[-3000:])
        chk.violation("driver or harness does not build against /repo's working tree", p, no_input=True)
        return chk.finish(proof)
    cases, n_exh, pairs, nkeys = gen_cases(chk.tier, chk.seed)
    impl, diag_i = common.parallel_run_lines([harness, "pure"], cases)
    model, diag_m = common.parallel_run_lines([common.DRIVER, "pure"], cases)
    if impl is None or model is None:
        p = chk.write_replay("run", f"# property={chk.prop}\n# {diag_i} {diag_m}\n")
        chk.violation("harness or driver failed to run: " + diag_i + diag_m, p, no_input=True)
        return chk.finish(proof)
    # direct predicate on the implementation's output
    verdicts, diag_v = common.parallel_run_lines(
        [common.DRIVER, "pure-check"], [f"{c} => {o}" for c, o in zip(cases, impl)])
    disagreements = [(c, i, m) for c, i, m in zip(cases, impl, model) if i != m]
    pred_fail = [(c, i, v) for c, i, v in zip(cases, impl, verdicts or []) if v != "ok"]
    nontrivial = len(set(c for c, i in zip(cases, impl) if i.strip()))
    chk.coverage.update({
        "evaluations": len(cases),
        "distinct_nontrivial": nontrivial,
        "rule": f"exhaustive: all {pairs} ordered pairs of maps over keys 1..{nkeys} x values {{0,1}} through symmetric_fold "
                "on BTreeMap/Rc<BTreeMap>/OrdMap and the owning iterator, all pairs of key subsets through MergeOnce, all pairs of "
                "tagged streams through MergeOnceWith; plus random larger maps (sizes up to 120, small edit distances favoured). "
                "non-trivial = distinct case whose implementation output is non-empty (something was visited)",
        "samples": [{"case": c, "impl": i, "model": m} for c, i, m in
                    list(zip(cases, impl, model))[1000:1003] + list(zip(cases, impl, model))[-3:]],
        "exhaustive": True,
        "exhaustive_part": n_exh,
        "random_part": len(cases) - n_exh,
        "traces_validated_against_impl": len(cases),
        "model_disagreements": len(disagreements),
        "predicate_failures_on_impl": len(pred_fail),
    })
    chk.assumptions += [
        "im_rc::OrdMap::diff is library code: modelled as the ascending list of Add/Remove/Update items (checked here by correspondence only)",
        "BTreeMap iteration order and lookup are modelled by strictly sorted association lists",
    ]
    if pred_fail:
        c, i, v = min(pred_fail, key=lambda t: len(t[0]))
        p = chk.write_replay("pred", f"# property={chk.prop}\n# predicate {v} on implementation output\n{c}\n# impl: {i}\n")
        chk.violation(f"implementation output violates the C18 predicate ({v}): {c} -> {i}", p)
    if disagreements and not pred_fail:
        c, i, m = min(disagreements, key=lambda t: len(t[0]))
        p = chk.write_replay("corr", f"# property={chk.prop}\n# correspondence broken (model vs implementation), predicate holds on all {len(cases)} cases\n{c}\n# impl:  {i}\n# model: {m}\n")
        chk.violation(f"model and implementation disagree: {c}: impl={i} model={m}", p, no_input=True)
    if not proof["ok"] and not pred_fail:
        p = chk.write_replay("proof", f"# property={chk.prop}\n# proof obligation no longer checks\n" + "\n".join(proof["failures"]) + "\n")
        chk.violation("proof obligations: " + "; ".join(proof["failures"]), p, no_input=True)
    return chk.finish(proof)


def replay(path):
    lines = [l.strip() for l in open(path) if l.strip() and not l.startswith("#")]
    okh, harness, _ = common.build_harness("debug")
    common.build_lean(["driver"])
    impl, _ = common.run_lines([harness, "pure"], lines)
    model, _ = common.run_lines([common.DRIVER, "pure"], lines)
    ver, _ = common.run_lines([common.DRIVER, "pure-check"], [f"{c} => {o}" for c, o in zip(lines, impl)])
    bad = 0
    for c, i, m, v in zip(lines, impl, model, ver):
        print(f"{c}\n  impl:  {i}\n  model: {m}\n  predicate on impl: {v}")
        bad += (v != "ok") or (i != m)
    return 1 if bad else 0
