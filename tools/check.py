#!/usr/bin/env python3
"""Entry point of every registered check: ./check Cxx --tier quick|thorough ; ./check replay <file>"""
import argparse
import importlib
import os
import sys

sys.path.insert(0, os.path.dirname(os.path.abspath(__file__)))
import common  # noqa: E402


def main():
    ap = argparse.ArgumentParser()
    ap.add_argument("prop")
    ap.add_argument("path", nargs="?")
    ap.add_argument("--tier", default=os.environ.get("VERIF_TIER", "quick"))
    args = ap.parse_args()
    seed = int(os.environ.get("VERIF_SEED", "1") or "1")
    import engine_props
    import engine_check
    if args.prop == "replay":
        # replay files start with "# property=Cxx"
        first = open(args.path).readline()
        prop = first.split("property=")[1].split()[0]
        if prop in engine_props.PROPS:
            sys.exit(engine_check.replay(args.path, prop, engine_props.PROPS[prop]))
        mod = importlib.import_module("p_" + prop.lower())
        sys.exit(mod.replay(args.path))
    prop = args.prop.upper()
    os.environ["VERIF_TIER_EFFECTIVE"] = args.tier
    chk = common.Check(prop, args.tier, seed)
    if prop in engine_props.PROPS:
        sys.exit(engine_check.run(chk, engine_props.PROPS[prop]))
    mod = importlib.import_module("p_" + prop.lower())
    sys.exit(mod.run(chk))


if __name__ == "__main__":
    main()
