#!/usr/bin/env python3
"""Regenerates MANIFEST.json from the table below (kept in one place so it is always valid)."""
import json, os
HERE = os.path.dirname(os.path.dirname(os.path.abspath(__file__)))
REPO_HOOK_COMMITS = [l.strip() for l in open(os.path.join(HERE, "hook_commits.txt")) if l.strip()]

CLAIMED = {
 "C18": dict(
    technique="Lean 4 theorems (state machines = textbook diff/merge, by induction on fuel/lists) + exhaustive differential correspondence",
    text="Kernel-checked theorems: the literal Lean transcriptions of MergeOnce, SymmetricDiff, SymmetricDiffOwned and MergeOnceWith, run to exhaustion, equal the textbook symmetric difference / ordered merge of sorted association lists of ANY size; membership characterisation, strict ascending order, empty iff equal. The transcription is tied to /repo by running both on all pairs of maps over a small domain (exhaustive) and on random larger maps, and the theorem's statement is evaluated as a decidable predicate on the implementation's own output.",
    note="Trusted: Lean kernel (axioms ⊆ propext, Classical.choice, Quot.sound), fidelity of the hand transcription (checked by correspondence, bounded by the generator: exhaustive to 4 keys quick / 6 keys thorough), BTreeMap and im_rc::OrdMap::diff as sorted-list semantics, harness + hooks.",
    ref="DESIGN.md §6 C18"),
}
ENGINE_NOTE = "Trusted: Lean kernel (axioms ⊆ propext, Classical.choice, Quot.sound, audited per run); fidelity of the hand-written engine model (a line-by-line logical port of node.rs/state.rs/heaps/var/observer code) — checked on every run by differential execution against /repo on generated histories over ALL trace channels relevant to the property, bounded by the generators; Rust harness + cfg hooks (registry, verif_snapshot, verif_audit); HashMap order abstracted (notifications of one round compared as a set)."
CLAIMED["C09"] = dict(
    technique="Lean 4 theorems about the handler automaton (closed form for every classification sequence) and the engine's round classification + differential correspondence + Lean predicate on the implementation's notification trace",
    text="Kernel-checked: for EVERY sequence of per-round classifications, the update-handler table (handlerStep, the definition the executable model runs) delivers Initialised exactly once first, Changed exactly at the later rounds classified changed, one Invalidated and nothing after (closed form, by induction over the sequence); a node with an observer is never classified Unnecessary; a round is classified Changed iff changed_at is that stabilisation (no Changed for an unchanged value). The engine model is tied to /repo by running both on generated histories (channels api, ev, read) and the sequence predicate holds_C09 is evaluated by the Lean driver on the implementation's own trace. Not yet proved: that the engine queues every node with handlers whenever it changes (covered by correspondence only).",
    note=ENGINE_NOTE,
    ref="DESIGN.md §6 C09")
CLAIMED["C04"] = dict(
    technique="Lean 4 theorems (panic-site guards for the non-cascading API calls; C04_partial) + differential correspondence in debug and release builds + Lean predicate (no panic) on the implementation's trace",
    text="Partial proof, full differential check. Kernel-checked for EVERY model state: disallow_future_use, unsubscribe, subscribe on live observers, node construction and var writes during stabilise never panic; var writes outside stabilise do not panic in release builds under stated conditions; the handler table never hands Unnecessary to a subscription; set_height panics exactly above the limit. NOT proved: the panic sites inside stabilise's cascades (listed in Props/C04.lean). Every run drives generated well-formed histories (WellFormed is a decidable Lean predicate, evaluated on every history) through the real crate in BOTH build profiles with catch_unwind around every action, compares with the model (which carries every assert/unwrap/debug_assert as an explicit panic outcome) and evaluates holds_C04.",
    note=ENGINE_NOTE, ref="DESIGN.md §6 C04")
CLAIMED["C07"] = dict(
    technique="Lean 4 frame theorems (reads unchanged by every non-stabilise action, for all states) + differential correspondence + Lean predicate on the implementation's reads after every action and from inside closures",
    text="Kernel-checked for EVERY model state satisfying two preserved well-formedness invariants: an observer's read depends only on alive/status/its record/node values; var writes (all five, also when they panic), node construction (every instruction), set_cutoff, subscribe/unsubscribe and observing leave every existing observer's read unchanged; a new observer reads NeverStabilised; while status = Stabilising every read is CurrentlyStabilising (C10.read_stabilising). The 'one snapshot at the end of stabilise' half is C01+C08 and is covered by correspondence/predicates, not yet by a theorem. Reads of all observers are compared after every action and from inside node functions and handlers.",
    note=ENGINE_NOTE, ref="DESIGN.md §6 C07")
CLAIMED["C08"] = dict(
    technique="Lean 4 theorems (closed-form run equations of writeVar inside/outside stabilise, composition of deferred writes, application in stabilise_end) + differential correspondence + Lean predicate on the implementation's trace",
    text="Kernel-checked for EVERY model state: outside stabilise each of the five writes updates the logical value at once, returns the old value, stamps and queues the watch node exactly when necessary; inside stabilise the committed value is untouched (every reader sees the pre-stabilise value), deferred writes compose in program order for any list of writes, and stabilise_end applies them after the counter bump (value, pending, set_at characterised for the general stack). Tied to /repo by differential runs (profile varw: writes from node functions and handlers) and holds_C08 on the implementation's trace. Termination of user fixed-point loops is not claimed.",
    note=ENGINE_NOTE, ref="DESIGN.md §6 C08")
CLAIMED["C10"] = dict(
    technique="Lean 4 theorems (read table, lifecycle transitions, frame for other observers; all states) + differential correspondence + Lean lifecycle predicate on the implementation's answers",
    text="Kernel-checked for EVERY model state: the complete read table by lifecycle state; disallow_future_use never panics, moves created→unlinked / inUse→disallowed, is idempotent and leaves every other observer's record and read unchanged; subscribe fails with Disallowed on ended observers and succeeds otherwise; unsubscribe with a foreign token is Mismatch with the state unchanged; none of the calls changes another observer's lifecycle state. The created→inUse and disallowed→unlinked transitions inside stabilise and the clone counting of the public handle are covered by correspondence (profile life) and holds_C10, not yet by theorems.",
    note=ENGINE_NOTE, ref="DESIGN.md §6 C10")
CLAIMED["C11"] = dict(
    technique="Lean 4 invariant proof (Hoare triples over the whole engine model, mvcgen) for the recompute-heap conjunct + snapshot-level differential correspondence after every action + representation audit hook",
    text="Kernel-checked: HeapWF (bucket membership agrees with every node's marker, no duplicates, length = sum of buckets, markers in range) holds initially and is preserved — on normal return AND on panic — by every function of the engine model up to stabilise (for the cascade-entering functions under cfg.debug, with a checked counterexample showing why release builds need the additional conjunct queued⇒necessary). The other conjuncts of the property (edge symmetry, heights, necessity, counters) are not yet theorems: they are checked on every run by comparing the model's complete snapshot with verif_snapshot() after EVERY action (heights, timestamps, validity, necessity, ordered parent lists with child indices, children, handler counts, heap buckets in order, counters) and by verif_audit() on the real representation (index arrays position by position, heap markers, handler counts, stats().necessary).",
    note=ENGINE_NOTE, ref="DESIGN.md §6 C11")
CLAIMED["C19"] = dict(
    technique="Lean 4 theorems (closed-form run equations of set_height / set_max_height_allowed / link for all states) + differential correspondence on a limits+misuse generator in both build profiles + Lean predicate for exactness on static graphs",
    text="Kernel-checked for EVERY model state: a heap for limit N has N+1 buckets; set_height panics with the height diagnostic iff the height exceeds the limit (given max_height_seen ≤ limit), set_max_height_allowed succeeds iff not stabilising and N ≥ max_height_seen (and leaves N+1 buckets in both heaps), after which heights are accepted iff ≤ N; link succeeds iff 0 ≤ height ≤ limit. Tied to /repo by the limits generator (N in 1..12, chains/binds around N, grow/shrink at quiescent points, cycles through one and two binds, nested stabilise from function and handler, drop of everything afterwards) in debug and release, with holds_C19 computing the needed height of static graphs independently. Termination of adjust_heights (no hang) is observed (every run terminates under a timeout), not yet a theorem.",
    note=ENGINE_NOTE, ref="DESIGN.md §6 C19")
STEP_NOTE = " The global statement (for every history) needs the scheduling invariant of drainHeap, which is not yet a theorem; it is covered on every run by the differential correspondence (exact trace equality with the model on all compared channels) and by the Lean predicate evaluated on the implementation's trace."
CLAIMED["C01"] = dict(
    technique="Lean 4 step theorems (one recompute establishes local consistency, with frame) + reference semantics `denote` in Lean evaluated against the implementation's reads + differential correspondence",
    text="Partial proof, full differential check. Kernel-checked for EVERY model state: one recompute of a map / var / const / fold / map_with_old / bind-main node ends with value = the node's function of its inputs' values (pre- and post-state), and changes the value of no other node and the validity/kind of none (C01.step_*)." + STEP_NOTE + " The predicate holds_C01 evaluates a from-scratch reference semantics (Spec/Denote.lean: structural evaluation of the defining expression incl. binds and nested binds, independent of the engine model) on the current variable values and compares it with what every in-use observer reads after every stabilise, on histories with equality-respecting cutoffs and pure functions (the property's proviso), incl. scripted unobserve/change/re-observe shapes.",
    note=ENGINE_NOTE, ref="DESIGN.md §6 C01, App. F")
CLAIMED["C02"] = dict(
    technique="Lean 4 step theorems (stamp-first, invoked once on the pre-state inputs, not stale afterwards) + differential correspondence in debug and release + Lean predicate (once per stabilise, arguments = inputs' final values)",
    text="Partial proof, full differential check. Kernel-checked for EVERY model state: recompute_one stamps recomputed_at before anything else and keeps it; a map node's function is invoked exactly once per step on the values its inputs have at that moment; after the step the node is not stale (C02.step_*)." + STEP_NOTE + " holds_C02 checks on the implementation's trace that no closure runs twice in one stabilise and that the logged arguments equal the inputs' values when the stabilise returns; both build profiles.",
    note=ENGINE_NOTE, ref="DESIGN.md §6 C02, App. F")
CLAIMED["C06"] = dict(
    technique="Lean 4 step theorems (cutoff table incl. argument order, suppress/propagate branches of maybe_change_value with 'changes are never lost', map_ref forwarding, can_recompute_now) + differential correspondence + Lean predicate on snapshots and cutoff events",
    text="Partial proof, full differential check. Kernel-checked for EVERY model state: the cutoff table (Never/Always/PartialEq/Fn/FnBoxed with (old,new) in that order, depend_on), the suppress branch (value replaced, changed_at and heap untouched), the propagate branch (every parent ends queued or is handed back for direct recompute — also through MapRef and Expert parents), first result always propagates, can_recompute_now completely described (C06.*)." + STEP_NOTE + " holds_C06 checks per stabilise, from the snapshots before/after: cutoff functions get (previous value, new value); a needed valid dependant ran iff it never ran or an input's changed_at is newer than its last run (both directions); Never/Always/default kinds behave as specified. F13 (map_ref over map_with_old ignores its cutoff) is classified by the predicate and is a known finding.",
    note=ENGINE_NOTE, ref="DESIGN.md §6 C06, App. F")
CLAIMED["C13"] = dict(
    technique="Lean 4 theorems (stabilise refuses on a poisoned state; status frame through every function; exact characterisation of the status after a panic; reads refuse; poisoned forever) + fault enumeration against the real crate (panic armed at every closure invocation) + Lean predicate",
    text="Kernel-checked for EVERY model state: stabilise on a state whose status is not NotStabilising panics at the status assertion with the state untouched (no user code runs); no function other than stabilise/stabilise_end writes the status (invariant pushed through every function incl. all cascades); a panic out of stabilise leaves Stabilising or RunningOnUpdateHandlers, the latter exactly when propagation had completed and a handler panicked; in the former every read fails with CurrentlyStabilising, forever, whatever API calls follow, and writes only park values. Drain completeness before handlers is proved for debug builds (C13_partial_*, with a checked release-mode counterexample on an unreachable-looking state). Tied to /repo by enumerating a panic at every user-closure invocation of one or two stabilises per history (node function, fold, map_with_old, bind closure, cutoff function, edge callback, expert recompute, handler), followed by reads, stabilise, write, stabilise, drop of everything, all under catch_unwind; holds_C13 on the implementation's trace.",
    note=ENGINE_NOTE + " Which handlers had already run when the k-th one panics depends on HashMap order: notifications are not compared for fault variants.", ref="DESIGN.md §6 C13, App. F")
CLAIMED["C15"] = dict(
    technique="Lean 4 theorems (each operator's Mealy machine equals its definition for every sequence of sorted input maps, by induction with the C18 diff lemmas) + differential correspondence through the real engine on all three map types + Lean predicate using the proven spec functions",
    text="Kernel-checked: for EVERY list of sorted input maps (insertion, deletion, value change, emptying, refilling, repeated equal inputs; no size bound) the literal transcriptions of the closures of incr_filter_mapi (hence incr_map/mapi/filter_map), incr_unordered_fold_with (any fold satisfying three stated laws, both values of revert-to-init, plain and custom update; a checked counterexample shows the commutation law is needed), incr_merge and incr_partition_mapi output exactly filterMapSpec / ufoldSpec / mergeSpec' / partitionSpec of the current input, and did_change=false only when the output is unchanged. The machines are the definitions the engine model runs (map_with_old nodes), so composition with the engine is by construction; 'across unobserved periods' is covered by the engine-level correspondence (the model recomputes operator nodes exactly when the implementation does). im_rc::OrdMap (insert/remove/diff) is library code: sorted-list semantics assumed, checked by correspondence.",
    note=ENGINE_NOTE + " Conversion nodes V ↔ concrete map type around each operator exist on both sides.", ref="DESIGN.md §6 C15")
CLAIMED["C17"] = dict(
    technique="Lean 4 theorems (closed form of the user-function call list of each operator step in terms of the symmetric diff) + call-by-call differential correspondence + Lean predicate",
    text="Kernel-checked for every step with a previous state: incr_filter_mapi calls the user function exactly for the Right/Unequal entries of the diff (never for removed keys), in ascending key order, at most once per key; incr_unordered_fold makes exactly one call per diff entry with role add/remove/update; incr_merge calls at most once per key of the merged diff streams and only for keys that differ in the left or right input; equal inputs cause no call; the initial/emptied branch processes every key once. Per-key operators (builder only for new keys, make_stale only for changed keys) are covered by correspondence: every call with key, role, arguments and result is compared as a sequence between model and implementation, and holds_C17 checks them against the differing keys.",
    note=ENGINE_NOTE, ref="DESIGN.md §6 C17")
CLAIMED["C14"] = dict(
    technique="Lean 4 theorems (closed-form run equations of the expert API: add/remove dependency with swap-remove and duplicate children, make_stale, edge callbacks, fire-all on first recompute, observability change) + differential correspondence on scripted expert drivers + Lean predicate (dynamic sums from current dependencies)",
    text="Partial proof, full differential check. Kernel-checked for EVERY model state (user-defined expert nodes): add_dependency on an unneeded node only records the edge (returns the fresh name, sets force_stale); remove_dependency is exactly swap-remove on the edge list with the index renaming done in one pass also when both edges point at ONE child (repaired D8), keeps edge symmetry for the remaining edges, puts the node in the heap, and decrements the invalid-children count iff the removed child is invalid (repaired D6); make_stale sets force_stale and queues iff necessary, after which the node is stale, and a recompute clears the flag (exactly one forced recompute); run_edge_callback does nothing while fire-all is pending and otherwise delivers the child's current value to the slot; on the first recompute after becoming observed again every callback edge whose child has a value has been delivered that value; observability_change(false) re-arms fire-all. NOT proved: add_dependency on a necessary node (link cascade), invalidate, whole-history equality with the expressed combinator — covered by correspondence (profile expert: join/bind patterns, add+remove by position, duplicates, make_stale, outside add_dependency, observer churn) and holds_C14 (value = sum over CURRENT dependencies of CURRENT child values / callback-delivered values; at most one recompute per stabilise; never invalid while all dependencies are valid).",
    note=ENGINE_NOTE, ref="DESIGN.md §6 C14")
ALL = ["C%02d" % i for i in range(1, 21)]
NOT_YET = "no check registered at this commit: the model component for this property is still under construction (see DESIGN.md §9 order of work); nothing is claimed"

def main():
    checks = []
    for pid in ALL:
        if pid not in CLAIMED: continue
        c = CLAIMED[pid]
        checks.append({
            "property_id": pid,
            "quick_cmd": f"./check {pid} --tier quick",
            "thorough_cmd": f"./check {pid} --tier thorough",
            "evidence_file": f"/verif/evidence/{pid}.json",
            "replay_cmd_template": "./check replay {path}",
            "engine": "lean-model+correspondence",
            "level_claimed": {"category": "proof", "text": c["text"], "design_ref": c["ref"]},
            "level_note": c["note"],
            "technique": c["technique"],
        })
    m = {
        "version": 1,
        "setup_cmd": "./setup.sh",
        "hooks": {
            "guard": "cormacrelf_incremental_rs_verif",
            "enable": "RUSTFLAGS='--cfg cormacrelf_incremental_rs_verif' (set in /verif/harness/.cargo/config.toml; the harness has path dependencies on /repo and /repo/incremental-map)",
            "baseline_off_cmd": "cd /repo && cargo nextest run --workspace --no-fail-fast --test-threads 8 --offline || cargo test --workspace --no-fail-fast --offline",
            "source_commits": REPO_HOOK_COMMITS,
            "add_only": True,
        },
        "engines": [{
            "name": "lean-model+correspondence",
            "path": "/verif/lean (Lean 4 library IncrVerif + driver), /verif/harness (Rust), /verif/tools (Python)",
            "serves_properties": sorted(CLAIMED),
            "kind_free_text": "hand-written executable Lean 4 model with kernel-checked theorems; differential correspondence against the real crate on generated histories; property predicates defined in Lean evaluated on the implementation's trace",
        }],
        "checks": checks,
        "notes": "See DESIGN.md. known_findings.json lists recorded/fixed defects; seeded/ holds confirmed property-breaking changes used to test the checks.",
        "not_applicable": [{"property_id": p, "reason": NOT_YET} for p in ALL if p not in CLAIMED],
    }
    with open(os.path.join(HERE, "MANIFEST.json"), "w") as f:
        json.dump(m, f, indent=1, ensure_ascii=False); f.write("\n")

main()
