#!/usr/bin/env python3
"""Regenerates MANIFEST.json from the table below (kept in one place so it is always valid)."""
import json, os
HERE = os.path.dirname(os.path.dirname(os.path.abspath(__file__)))
REPO_HOOK_COMMITS = [l.strip() for l in open(os.path.join(HERE, "hook_commits.txt")) if l.strip()]

CLAIMED = {
 "C18": dict(
    technique="Lean 4 theorems (state machines = textbook diff/merge, by induction on fuel/lists) + exhaustive differential correspondence",
    text="Kernel-checked theorems: the literal Lean transcriptions of MergeOnce, SymmetricDiff, SymmetricDiffOwned and MergeOnceWith, run to exhaustion, equal the textbook symmetric difference / ordered merge of sorted association lists of ANY size; membership characterisation, strict ascending order, empty iff equal. The transcription is tied to /repo by running both on all pairs of maps over a small domain (exhaustive) and on random larger maps, and the theorem's statement is evaluated as a decidable predicate on the implementation's own output.",
    note="Trusted: Lean kernel (axioms ⊆ propext, Classical.choice, Quot.sound), fidelity of the hand transcription (checked by correspondence, bounded by the generator: exhaustive to 4 keys quick / 6 keys thorough), BTreeMap and im_rc::OrdMap::diff as sorted-list semantics, harness + hooks.",
    ref="DESIGN.md §6 C18"),
}
ENGINE_NOTE = "Trusted: Lean kernel (axioms ⊆ propext, Classical.choice, Quot.sound, audited per run); fidelity of the hand-written engine model (a line-by-line logical port of node.rs/state.rs/heaps/var/observer code) — checked on every run by differential execution against /repo on generated histories over ALL trace channels relevant to the property, bounded by the generators; Rust harness + cfg hooks (registry, verif_snapshot, verif_audit); HashMap order abstracted (notifications of one round compared as a set)."
CLAIMED["C09"] = dict(
    technique="Lean 4 theorems about the handler automaton (closed form for every classification sequence) and the engine's round classification + differential correspondence + Lean predicate on the implementation's notification trace",
    text="Kernel-checked: for EVERY sequence of per-round classifications, the update-handler table (handlerStep, the definition the executable model runs) delivers Initialised exactly once first, Changed exactly at the later rounds classified changed, one Invalidated and nothing after (closed form, by induction over the sequence); a node with an observer is never classified Unnecessary; a round is classified Changed iff changed_at is that stabilisation (no Changed for an unchanged value). The engine model is tied to /repo by running both on generated histories (channels api, ev, read) and the sequence predicate holds_C09 is evaluated by the Lean driver on the implementation's own trace. Not yet proved: that the engine queues every node with handlers whenever it changes (covered by correspondence only).",
    note=ENGINE_NOTE,
    ref="DESIGN.md §6 C09")
ALL = ["C%02d" % i for i in range(1, 21)]
NOT_YET = "no check registered at this commit: the model component for this property is still under construction (see DESIGN.md §9 order of work); nothing is claimed"

def main():
    checks = []
    for pid in ALL:
        if pid not in CLAIMED: continue
        c = CLAIMED[pid]
        checks.append({
            "property_id": pid,
            "quick_cmd": f"./check {pid} --tier quick",
            "thorough_cmd": f"./check {pid} --tier thorough",
            "evidence_file": f"/verif/evidence/{pid}.json",
            "replay_cmd_template": "./check replay {path}",
            "engine": "lean-model+correspondence",
            "level_claimed": {"category": "proof", "text": c["text"], "design_ref": c["ref"]},
            "level_note": c["note"],
            "technique": c["technique"],
        })
    m = {
        "version": 1,
        "setup_cmd": "./setup.sh",
        "hooks": {
            "guard": "cormacrelf_incremental_rs_verif",
            "enable": "RUSTFLAGS='--cfg cormacrelf_incremental_rs_verif' (set in /verif/harness/.cargo/config.toml; the harness has path dependencies on /repo and /repo/incremental-map)",
            "baseline_off_cmd": "cd /repo && cargo nextest run --workspace --no-fail-fast --test-threads 8 --offline || cargo test --workspace --no-fail-fast --offline",
            "source_commits": REPO_HOOK_COMMITS,
            "add_only": True,
        },
        "engines": [{
            "name": "lean-model+correspondence",
            "path": "/verif/lean (Lean 4 library IncrVerif + driver), /verif/harness (Rust), /verif/tools (Python)",
            "serves_properties": sorted(CLAIMED),
            "kind_free_text": "hand-written executable Lean 4 model with kernel-checked theorems; differential correspondence against the real crate on generated histories; property predicates defined in Lean evaluated on the implementation's trace",
        }],
        "checks": checks,
        "notes": "See DESIGN.md. known_findings.json lists recorded/fixed defects; seeded/ holds confirmed property-breaking changes used to test the checks.",
        "not_applicable": [{"property_id": p, "reason": NOT_YET} for p in ALL if p not in CLAIMED],
    }
    with open(os.path.join(HERE, "MANIFEST.json"), "w") as f:
        json.dump(m, f, indent=1, ensure_ascii=False); f.write("\n")

main()
