#!/bin/sh
# usage: seedtest.sh <patch-file> <Cxx> [<Cyy> ...]
# Applies a seeded change to /repo's working tree, runs the given checks (quick tier), and undoes it.
# Evidence files are saved and restored: evidence committed in /verif must come from the unchanged tree.
patch="$1"; shift
cd /repo || exit 2
if ! git diff --quiet; then echo "repo working tree not clean"; exit 2; fi
git apply "$patch" || { echo "patch does not apply"; exit 2; }
mkdir -p /tmp/evsave && cp /verif/evidence/*.json /tmp/evsave/ 2>/dev/null
cd /verif
for p in "$@"; do
  out=$(VERIF_DEV_SKIP_PROOFS=${VERIF_DEV_SKIP_PROOFS:-0} ./check "$p" 2>&1 | grep -E "^VIOLATION|^OK|^KNOWN" | tr '\n' ' ')
  echo "$p: $out"
done
cp /tmp/evsave/*.json /verif/evidence/ 2>/dev/null; rm -rf /tmp/evsave
git -C /repo checkout -- .
(cd /verif/harness && cargo build --offline >/dev/null 2>&1; cargo build --offline --release >/dev/null 2>&1)
