"""Calibration: evaluate property predicates on the implementation's traces of random histories."""
import sys, os, tempfile, argparse
sys.path.insert(0, os.path.dirname(os.path.abspath(__file__)))
import common, engine, gen_engine, engine_check

ap = argparse.ArgumentParser()
ap.add_argument("--profile", default="general")
ap.add_argument("--n", type=int, default=200)
ap.add_argument("--seed", type=int, default=1)
ap.add_argument("--props", default="C01,C02,C04,C05,C07,C08,C09,C10,C11")
ap.add_argument("--build", default="debug")
ap.add_argument("--c01safe", action="store_true")
ap.add_argument("--show", type=int, default=1)
args = ap.parse_args()
props = args.props.split(",")
os.makedirs(engine_check.TMP, exist_ok=True)
wd = tempfile.mkdtemp(dir=engine_check.TMP)

def job(sd):
    text, _ = gen_engine.gen_history(sd, args.profile, c01_safe=args.c01safe, debug=(args.build == "debug"))
    impl, e = engine.run_impl(text, args.build)
    if e:
        return sd, text, {"run": e}
    v = engine_check.predicate(text, impl, props, wd, f"pf{sd}")
    return sd, text, {k: x for k, x in v.items() if x is not None}

res = engine.parallel(job, [args.seed * 1000003 + i for i in range(args.n)])
summary = {}
for sd, text, v in res:
    for k, x in v.items():
        summary.setdefault(k, []).append((sd, x, text))
print(f"{len(res)} histories, profile {args.profile}")
for k, lst in sorted(summary.items()):
    print(f"  {k}: {len(lst)} failures; e.g. seed {lst[0][0]}: {lst[0][1][:200]}")
    for sd, x, text in lst[:args.show]:
        def still(tx):
            impl, e = engine.run_impl(tx, args.build)
            if e: return False
            return engine_check.predicate(tx, impl, [k], wd, "shr")[k] is not None
        small = engine.shrink(text, still, 3)
        impl, _ = engine.run_impl(small, args.build)
        print("   --- shrunk:", engine_check.predicate(small, impl, [k], wd, "shr")[k])
        print("   " + small.replace("\n", "\n   "))
