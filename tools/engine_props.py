"""Per-property configuration of the generic engine check (tools/engine_check.py)."""

COMMON_ASSUME = [
    "histories are generated well-formed (DESIGN.md §6 WellFormed); user closures are the function families of the history language (linear maps mod m, folds, projections, map_with_old machines, cutoff predicates, bind bodies as templates, handlers with effect lists)",
    "HashMap iteration order (per-node observers, per-observer handlers) is not defined: notification events of one stabilise are compared as a sorted block",
    "nodes are named by creation order through the cfg-guarded registry hook; values are one enum type V with a canonical rendering",
]

def spec(modules, profiles, channels, rule, builds=("debug",), nq=240, nt=6000, **kw):
    d = dict(modules=modules, profiles=profiles, builds=list(builds), channels=channels, n_quick=nq, n_thorough=nt,
             rule=rule, assumptions=COMMON_ASSUME)
    d.update(kw)
    return d


GEN = ("random well-formed histories from the seeded generator (tools/gen_engine.py): DAGs over vars/constants with map1..6, fold, "
       "map_ref, map_with_old, zip, depend_on, binds with 2-3 alternatives (pre-existing nodes, the lhs itself, fresh map chains, "
       "nested binds, unused nodes), all cutoff kinds, observer churn (observe/clone/drop/disallow), subscriptions, the five var writes "
       "incl. equal values, expert nodes with scripted drivers; 8-60 actions each. ")

PROPS = {
    "C01": spec(["IncrVerif.Props.C01", "IncrVerif.Props.C03Order", "IncrVerif.Props.C01Global", "IncrVerif.Props.C01History", "IncrVerif.Props.C01MapRef", "IncrVerif.Props.C03Nested", "IncrVerif.Props.C01Full"], [("static", 0.35), ("bind", 0.45), ("general", 0.2)], ["api", "read"],
                GEN + "C01 histories use only equality-respecting cutoffs and pure map_with_old machines (the property's proviso); "
                "non-trivial = distinct history with at least two successful observer reads and one node function invocation",
                c01_safe=True),
    "C02": spec(["IncrVerif.Props.C02", "IncrVerif.Props.C03Order", "IncrVerif.Props.C01Global", "IncrVerif.Props.C01History", "IncrVerif.Props.C03Nested", "IncrVerif.Props.C17History", "IncrVerif.Props.C02Full"], [("bind", 0.5), ("general", 0.3), ("static", 0.2)], ["api", "ev", "read"],
                GEN + "both build profiles (in debug builds a glitch usually trips a debug assertion first; release builds show the "
                "stale arguments); non-trivial = distinct history in which node functions ran",
                builds=("debug", "release"), nq=200),
    "C06": spec(["IncrVerif.Props.C06", "IncrVerif.Props.C01Global", "IncrVerif.Props.C01History", "IncrVerif.Props.C01MapRef", "IncrVerif.Props.C06History", "IncrVerif.Props.C06Full"], [("static", 0.25), ("general", 0.35), ("bind", 0.25), ("varw", 0.15)], ["api", "ev", "read"],
                GEN + "all cutoff kinds on all node kinds incl. vars, equal-value writes, unobserve/re-observe; "
                "non-trivial = distinct history in which node functions ran"),
    "C14": spec(["IncrVerif.Props.C14", "IncrVerif.Props.C14History", "IncrVerif.Props.C14Drivers"], [("expert", 1.0)], ["api", "ev", "read", "snap"],
                GEN + "profile expert: expert nodes (sum of dependencies / sum of what the edge callbacks stored) with scripted drivers: "
                "join/bind pattern (select one of several targets by the driver's input, always or only when new), add + remove by position, "
                "duplicate dependencies on one child, make_stale, dependencies added from outside while observed, observer churn; "
                "non-trivial = distinct history in which an expert node was recomputed"),
    "C03": spec(["IncrVerif.Props.C03", "IncrVerif.Props.C03Order", "IncrVerif.Props.C03Nested", "IncrVerif.Props.C01Full", "IncrVerif.Props.C03Full"], [("bind", 0.7), ("general", 0.3)], ["api", "ev", "read", "snap"],
                GEN + "both build profiles; generations are reconstructed from the trace (closure runs in order, consecutive node indices); "
                "non-trivial = distinct history in which a bind closure ran at least twice",
                builds=("debug", "release"), nq=200),
    "C04": spec(["IncrVerif.Props.C04", "IncrVerif.Props.C01History", "IncrVerif.Props.C03Nested", "IncrVerif.Props.C17History", "IncrVerif.Props.C06History", "IncrVerif.Props.C04Full"], [("general", 0.3), ("bind", 0.3), ("expert", 0.2), ("subs", 0.1), ("varw", 0.1)],
                ["api"], GEN + "both build profiles (debug assertions on and off); non-trivial = distinct history in which node functions ran",
                builds=("debug", "release"), nq=200),
    "C05": spec(["IncrVerif.Props.C05", "IncrVerif.Props.C01History", "IncrVerif.Props.C05Release"], [("general", 0.3), ("bind", 0.3), ("expert", 0.25), ("life", 0.15)], ["api", "ev", "stats"],
                GEN + "both build profiles (a node wrongly kept needed usually trips a debug assertion first; the release build shows the "
                "function running with no live observer); non-trivial = distinct history in which node functions ran",
                builds=("debug", "release")),
    "C07": spec(["IncrVerif.Props.C07", "IncrVerif.Props.C10History"], [("varw", 0.35), ("general", 0.3), ("life", 0.15), ("expert", 0.2)], ["api", "read", "ev"],
                GEN + "reads of every observer after every action, and from inside node functions and handlers (readobs effects); "
                "non-trivial = distinct history with observer reads that succeed"),
    "C08": spec(["IncrVerif.Props.C08", "IncrVerif.Props.C08History"], [("varw", 0.7), ("general", 0.3)], ["api", "ev", "read", "stats"],
                GEN + "profile varw: writes from node functions and handlers, several readers; non-trivial = distinct history in which node functions ran"),
    "C10": spec(["IncrVerif.Props.C10", "IncrVerif.Props.C10History"], [("life", 0.6), ("subs", 0.4)], ["api", "read", "ev"],
                GEN + "profile life: observer-API heavy; non-trivial = distinct history with observer reads"),
    "C11": spec(["IncrVerif.Props.C11Heap", "IncrVerif.Props.C05", "IncrVerif.Props.C01History", "IncrVerif.Props.C11Full"], [("general", 0.3), ("bind", 0.3), ("expert", 0.2), ("subs", 0.2)],
                ["snap", "heap", "stats", "audit"],
                GEN + "the model's full snapshot (heights, timestamps, validity, necessity, ordered parent lists with child indices, children, "
                "handler counts, heap buckets in order, counters) is compared with verif_snapshot() after EVERY action, and verif_audit() "
                "(index arrays position by position, heap markers, handler counts) must be silent; non-trivial = distinct history in which node functions ran"),
    "C15": spec(["IncrVerif.Props.C15", "IncrVerif.Props.C15History", "IncrVerif.Props.C17History"], [("maps", 1.0)], ["api", "ev", "read", "snap"],
                "profile maps: incr_filter_mapi / incr_unordered_fold (plain and with update, with and without revert-to-init) / incr_merge / "
                "incr_partition_mapi on BTreeMap, Rc<BTreeMap> and OrdMap inputs (each operator on the map types it is defined for) through the real "
                "engine: two map-valued vars, 1-3 operator instances, 4-14 edits per history (insert / delete / change / empty / refill / equal map "
                "written again), observe / unobserve / re-observe of the outputs; non-trivial = distinct history in which an operator's user function was called",
                nq=200, nt=8000),
    "C17": spec(["IncrVerif.Props.C17", "IncrVerif.Props.C15History", "IncrVerif.Props.C17History"], [("maps", 0.7), ("perkey", 0.3)], ["api", "ev"],
                "profiles maps and perkey: every call of a user function (with key, arguments, role and result) is logged on both sides and compared as a "
                "sequence; holds_C17 checks the calls against the keys that differ between the input the operator last ran on and the current one; "
                "non-trivial = distinct history in which an operator's user function was called",
                nq=200, nt=8000),
    "C19": spec(["IncrVerif.Props.C19", "IncrVerif.Props.C19History"], [("limits", 1.0)], ["api", "read", "heap", "stats"],
                "profile limits: limit N in 1..12, map chains of top height N-1..N+1 (fan-in 1-2), binds over chains, growing and shrinking "
                "reconfigurations at quiescent points (also below the greatest height used), and the misuse stream: cycles closed through one "
                "or two binds, stabilise called from a node function and from a handler; every history ends by dropping every handle and the state; "
                "both build profiles; non-trivial = distinct history in which node functions ran or a panic was produced",
                builds=("debug", "release"), require_wf=False, nq=200),
    "C12": spec(["IncrVerif.Props.C12", "IncrVerif.Props.C12History", "IncrVerif.Props.C12Full"], [("memo", 0.3), ("bind", 0.25), ("general", 0.2), ("perkey", 0.15), ("expert", 0.1)],
                ["api", "snap", "read"],
                GEN + "every history of these profiles also drops handles (drophandle on top-level results incl. memoised nodes, dropobs, dropvar) and "
                "profiles memo/maps/perkey/limits end with dropping EVERY handle and the state; both sides list the nodes still allocated after every "
                "action (implementation: registry weak references that still upgrade; model: aliveSet) and the lists must be EQUAL; the implementation also "
                "reports its strong references and the live-node counter after the final drop; non-trivial = distinct history in which node functions ran",
                nq=240),
    "C16": spec(["IncrVerif.Props.C16", "IncrVerif.Props.C16History"], [("perkey", 1.0)], ["api", "ev", "read", "snap"],
                "profile perkey: incr_mapi_ / incr_mapi_cutoff on BTreeMap and OrdMap with six per-key families (pure function of value and key; ignores its "
                "input; one shared pre-existing node; map2 with an outer variable; chain; bind on the value), all cutoff variants, edits of the input map "
                "(insert/remove/change/empty/refill/equal), writes to the outer variable, observe/unobserve/re-observe, final drop of everything; "
                "non-trivial = distinct history in which a per-key function was built",
                builds=("debug", "release"), nq=150, nt=6000),
    "C20": spec(["IncrVerif.Props.C20", "IncrVerif.Props.C20History"], [("memo", 1.0)], ["api", "ev", "read", "snap"],
                "profile memo: two memoised functions (templates over outer vars and the key) called from top level and from bind bodies incl. a nested "
                "bind, returned nodes observed / handles dropped, binds re-run by writes, stabilises in between, final drop of everything; "
                "non-trivial = distinct history in which a memoised function ran"),
    "C13": spec(["IncrVerif.Props.C13", "IncrVerif.Props.C13History"], [("general", 0.3), ("bind", 0.3), ("subs", 0.2), ("expert", 0.2)],
                ["api", "read", "ev-propagation"],
                GEN + "each base history is turned into one variant per user-closure invocation (node function, fold pass, map_with_old, bind "
                "closure, cutoff function, edge callback, expert recompute, update handler) of one or two of its stabilises: a panic is armed at "
                "exactly that invocation (enumeration; capped at 6 per stabilise in the quick tier, 40 in thorough), then reads, a stabilise, a write, "
                "another stabilise, and the drop of every handle and the state, each under catch_unwind; non-trivial = distinct variant in which the "
                "armed panic fired",
                derive="fault", require_wf=False, nq=60, nt=1500),
    "C09": dict(
        modules=["IncrVerif.Props.C09", "IncrVerif.Props.C10History", "IncrVerif.Props.C09History", "IncrVerif.Props.C08History"],
        profiles=[("subs", 0.5), ("general", 0.3), ("bind", 0.2)],
        builds=["debug"],
        channels=["api", "ev", "read"],
        n_quick=240, n_thorough=6000,
        rule="random well-formed histories (profiles subs/general/bind: shared nodes with several observers and subscriptions, "
             "unsubscribe by observer and by state with own and foreign tokens, disallow/drop/clone, writes incl. equal values, binds); "
             "non-trivial = distinct history in which at least one notification was delivered",
        assumptions=COMMON_ASSUME,
    ),
}
