"""Per-property configuration of the generic engine check (tools/engine_check.py)."""

COMMON_ASSUME = [
    "histories are generated well-formed (DESIGN.md §6 WellFormed); user closures are the function families of the history language (linear maps mod m, folds, projections, map_with_old machines, cutoff predicates, bind bodies as templates, handlers with effect lists)",
    "HashMap iteration order (per-node observers, per-observer handlers) is not defined: notification events of one stabilise are compared as a sorted block",
    "nodes are named by creation order through the cfg-guarded registry hook; values are one enum type V with a canonical rendering",
]

PROPS = {
    "C09": dict(
        modules=["IncrVerif.Props.C09"],
        profiles=[("subs", 0.5), ("general", 0.3), ("bind", 0.2)],
        builds=["debug"],
        channels=["api", "ev", "read"],
        n_quick=240, n_thorough=6000,
        rule="random well-formed histories (profiles subs/general/bind: shared nodes with several observers and subscriptions, "
             "unsubscribe by observer and by state with own and foreign tokens, disallow/drop/clone, writes incl. equal values, binds); "
             "non-trivial = distinct history in which at least one notification was delivered",
        assumptions=COMMON_ASSUME,
    ),
}
