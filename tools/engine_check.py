"""Generic check for the engine-level properties: proof obligations + correspondence + direct predicate.

A property's entry in PROPS says which Lean modules hold its theorems, which generator profiles and
build profiles exercise it, which trace channels tie the model to the code for it, and which predicate
(`IncrVerif/Spec/Props.lean`) is evaluated on the implementation's trace.
"""
import hashlib
import json
import os
import re
import subprocess
import sys
import tempfile
import time

sys.path.insert(0, os.path.dirname(os.path.abspath(__file__)))
import common  # noqa: E402
import engine  # noqa: E402
import gen_engine  # noqa: E402

TMP = os.path.join(common.REPLAYS, "tmp")


def predicate(hist_text, impl_lines, props, workdir, tag):
    hp = os.path.join(workdir, f"{tag}.hist")
    tp = os.path.join(workdir, f"{tag}.trace")
    with open(hp, "w") as f:
        f.write(hist_text)
    with open(tp, "w") as f:
        f.write("\n".join(impl_lines) + "\n")
    rc, out, err = common.sh([common.DRIVER, "engine-check", hp, tp] + list(props), timeout=120)
    res = {}
    for l in out.split("\n"):
        parts = l.split(" ", 2)
        if len(parts) >= 2:
            res[parts[0]] = None if parts[1] == "ok" else (parts[2] if len(parts) > 2 else "fail")
    for p in props:
        res.setdefault(p, f"driver-error rc={rc} {err[-200:]}")
    return res


def nontrivial_key(text):
    """distinctness key of a history: its action lines with definitions stripped"""
    return hashlib.sha1(text.encode()).hexdigest()


class Case:
    __slots__ = ("seed", "profile", "build", "text", "impl", "model", "diffs", "verdict", "stats", "error", "wf")


def run_one(job):
    seed, profile, build, prop, channels, c01_safe, workdir = job
    c = Case()
    c.seed, c.profile, c.build = seed, profile, build
    c.text, c.stats = gen_engine.gen_history(seed, profile, c01_safe=c01_safe, debug=(build == "debug"))
    return finish_case(c, prop, channels, workdir)


def finish_case(c, prop, channels, workdir):
    c.error = None
    c.impl, ei = engine.run_impl(c.text, c.build)
    c.model, em = engine.run_model(c.text)
    if c.impl is None or c.model is None or ei or em:
        c.error = f"impl: {ei} | model: {em}"
        c.diffs, c.verdict, c.wf = [], None, None
        return c
    c.diffs = engine.compare(c.impl, c.model, channels=channels)
    tag = f"{prop}_{c.build}_{c.seed}_{os.getpid()}_{id(c)}"
    pv = predicate(c.text, c.impl, [prop, "WF"], workdir, tag)
    c.verdict = pv[prop]
    c.wf = pv["WF"]
    for ext in (".hist", ".trace"):
        try:
            os.remove(os.path.join(workdir, tag + ext))
        except OSError:
            pass
    return c


def invalid_history(c, require_wf=True):
    """a shrinking step must not turn the history into one the harness or the model cannot interpret,
    nor into one that breaks the library's rules (WellFormed, evaluated by the Lean driver)"""
    if require_wf and c.wf is not None:
        return True
    for l in (c.impl or []) + (c.model or []):
        if "harness-error" in l or "model-error" in l or " api bad-op" in l:
            return True
    return False


def rerun_text(text, build, prop, channels, workdir):
    c = Case()
    c.seed, c.profile, c.build, c.text, c.stats = 0, "replay", build, text, {}
    return finish_case(c, prop, channels, workdir)


def derive_fault(text, impl_lines, cap):
    """C13: from a base history, one variant per user-closure invocation of one stabilise: a panic is armed at
    that invocation; afterwards reads, a stabilise, a write, another stabilise and the drop of everything."""
    lines = text.rstrip("\n").split("\n")
    is_def = lambda l: l.split()[0] in ("cfg", "maxheight", "fn", "fneff", "folddef", "proj", "old", "cut", "body", "hdl")
    act_line_idx = [i for i, l in enumerate(lines) if not is_def(l)]
    ch = engine.split_channels(impl_lines)
    ticks = {}
    for idx, payload in ch.get("ev", []):
        if payload.startswith(("inv ", "cut ", "notif ")):
            ticks[idx] = ticks.get(idx, 0) + 1
    stabs = [a for a, li in enumerate(act_line_idx) if lines[li].strip() == "stabilise" and ticks.get(a, 0) > 0]
    if not stabs:
        return []
    out = []
    # the last stabilise with work, and one more picked by size
    targets = {stabs[-1], stabs[len(stabs) // 2]}
    has_var = any(l.startswith("var ") for l in lines) and not any(l.strip() == "dropvar v0" for l in lines) \
        and not any(l.startswith("var (") for l in lines[:[i for i, l in enumerate(lines) if l.startswith("var ")][0] + 1])
    for a in sorted(targets):
        n = ticks[a]
        ks = list(range(1, n + 1))
        if len(ks) > cap:
            step = len(ks) / cap
            ks = sorted({ks[int(i * step)] for i in range(cap)} | {1, n})
        for k in ks:
            li = act_line_idx[a]
            tail = ["stabilise"] + (["set v0 1"] if has_var else []) + ["stabilise", "dropall"]
            out.append("\n".join(lines[:li] + [f"arm {k}"] + [lines[li]] + tail) + "\n")
    return out


def mechanism_exercised(prop, c):
    """Is the property's mechanism actually exercised by this history (for distinct_nontrivial)?"""
    impl = c.impl or []
    def has(pat):
        return any(pat in l for l in impl)
    if prop == "C01":
        return sum(1 for l in impl if " read " in l and "=ok " in l) >= 2 and has(" ev inv ")
    if prop == "C04":
        return has(" ev inv ")
    if prop == "C09":
        return has(" ev notif ")
    if prop in ("C15", "C17"):
        return has(" ev inv M")
    if prop == "C16":
        return has(" ev note pk ")
    if prop == "C20":
        return has(" ev note memo ")
    if prop == "C12":
        return has(" ev inv ")
    if prop == "C03":
        return sum(1 for l in impl if " ev inv b" in l) >= 2
    if prop == "C14":
        return has(" ev inv x")
    if prop == "C13":
        return has(" api panic user")
    if prop == "C19":
        return has(" ev inv ") or has(" api panic")
    if prop in ("C07", "C10"):
        return sum(1 for l in impl if " read " in l and "=ok " in l) >= 2
    if prop == "C11":
        return has(" ev inv ") and has("nec=1")
    return has(" ev inv ")


def run(chk, spec):
    prop = chk.prop
    t0 = time.time()
    proof = common.proof_obligations(prop, spec["modules"])
    okd, logd = common.build_lean(["driver"])
    builds = spec.get("builds", ["debug"])
    for b in builds:
        okh, _path, logh = common.build_harness(b)
        if not okh:
            break
    if not okd or not okh:
        p = chk.write_replay("build", f"# property={prop}\n# build failure\n" + (logd if not okd else logh)[-3000:])
        chk.violation("driver or harness does not build against /repo's working tree", p, no_input=True)
        return chk.finish(proof)
    os.makedirs(TMP, exist_ok=True)
    workdir = tempfile.mkdtemp(dir=TMP)
    n = spec["n_quick"] if chk.tier == "quick" else spec["n_thorough"]
    channels = tuple(spec["channels"])
    jobs = []
    # corpus first
    corpus = []
    cdir = os.path.join(common.CORPUS, prop)
    if os.path.isdir(cdir):
        for f in sorted(os.listdir(cdir)):
            if f.endswith(".hist"):
                corpus.append((f, open(os.path.join(cdir, f)).read()))
    k = 0
    for profile, weight in spec["profiles"]:
        cnt = max(1, int(n * weight))
        for i in range(cnt):
            for b in builds:
                jobs.append((chk.seed * 1000003 + k, profile, b, prop, channels, spec.get("c01_safe", False), workdir))
            k += 1
    cases = engine.parallel(run_one, jobs)
    if spec.get("derive") == "fault":
        cap = 6 if chk.tier == "quick" else 40
        variants = []
        for c in cases:
            if c.error or c.wf is not None:
                continue
            for v in derive_fault(c.text, c.impl, cap):
                variants.append((v, c))
        def run_variant(vc):
            v, base = vc
            r = rerun_text(v, base.build, prop, channels, workdir)
            r.seed, r.profile, r.stats = base.seed, base.profile + "+fault", base.stats
            return r
        cases = engine.parallel(run_variant, variants)
    for name, text in corpus:
        for b in builds:
            c = rerun_text(text, b, prop, channels, workdir)
            c.profile = "corpus:" + name
            cases.append(c)
    known = common.load_known()
    pred_fail, corr_fail, errors = [], [], []
    require_wf = spec.get("require_wf", True)
    not_wf = [c for c in cases if not c.error and c.wf is not None]
    if require_wf:
        cases = [c for c in cases if c.error or c.wf is None]
    dist = {}
    nontriv = set()
    for c in cases:
        if c.error:
            errors.append(c)
            continue
        for kk, v in c.stats.items():
            dist[kk] = dist.get(kk, 0) + v
        if mechanism_exercised(prop, c):
            nontriv.add(nontrivial_key(c.text))
        if c.verdict is not None:
            pred_fail.append(c)
        elif c.diffs:
            corr_fail.append(c)
    # known findings
    def known_match(c):
        for kf in known.get("findings", []):
            if kf.get("property") == prop and re.search(kf["signature"], c.verdict or ""):
                if kf.get("id") == "F12":
                    # transient necessity is inherent to the algorithm: it is the known finding only if the
                    # MODEL (the algorithm as specified) runs the very same node function in the very same
                    # action; an implementation that runs something the model does not is a new violation
                    m = re.search(r"action (\d+): (\S+)@n(\d+) ran", c.verdict or "")
                    if not m:
                        continue
                    needle = f"{m.group(1)} ev inv {m.group(2)}@n{m.group(3)} "
                    if not any(l.startswith(needle) for l in (c.model or [])):
                        continue
                return kf
        return None
    new_pred = []
    for c in pred_fail:
        kf = known_match(c)
        if kf:
            chk.known(kf["what"])
        else:
            new_pred.append(c)
    sample_cases = [c for c in cases if not c.error][:2]
    chk.coverage.update({
        "evaluations": len(cases),
        "distinct_nontrivial": len(nontriv),
        "rule": spec["rule"],
        "samples": [{"profile": c.profile, "build": c.build, "seed": c.seed, "history": c.text.strip().split("\n")[-12:],
                     "impl_trace_excerpt": [l for l in (c.impl or []) if " api " in l or " ev " in l or " read " in l][-8:]}
                    for c in sample_cases],
        "exhaustive": False,
        "traces_validated_against_impl": len(cases) - len(errors),
        "model_disagreements": len(corr_fail),
        "predicate_failures_on_impl": len(pred_fail),
        "predicate_failures_not_known": len(new_pred),
        "channels_compared": list(channels),
        "input_distribution": dict(sorted(dist.items())),
        "profiles": [p for p, _ in spec["profiles"]],
        "builds": builds,
        "corpus_cases": len(corpus),
        "generated_but_not_wellformed_dropped": len(not_wf) if require_wf else 0,
    })
    chk.assumptions += spec.get("assumptions", [])
    if errors:
        c = errors[0]
        p = chk.write_replay("run", f"# property={prop}\n# harness or driver failed to run: {c.error}\n" + c.text)
        chk.violation("harness or driver failed: " + c.error[:300], p, no_input=True)
    if new_pred:
        c = min(new_pred, key=lambda c: len(c.text))
        first = c.verdict.split(":")[0] if c.verdict else ""
        def still(tx):
            r = rerun_text(tx, c.build, prop, channels, workdir)
            return (not r.error) and not invalid_history(r, require_wf) and r.verdict is not None and known_match(r) is None
        small = engine.shrink(c.text, still, max_rounds=3)
        r = rerun_text(small, c.build, prop, channels, workdir)
        p = chk.write_replay("pred", f"# property={prop}\n# build={c.build} seed={c.seed} profile={c.profile}\n# predicate on the implementation's trace: {r.verdict}\n" + small)
        chk.violation(f"implementation violates the property predicate: {r.verdict}", p)
    if corr_fail and not new_pred:
        c = min(corr_fail, key=lambda c: len(c.text))
        d = c.diffs[0]
        def still(tx):
            r = rerun_text(tx, c.build, prop, channels, workdir)
            return (not r.error) and not invalid_history(r, require_wf) and bool(r.diffs) and r.diffs[0][0] == d[0]
        small = engine.shrink(c.text, still, max_rounds=3)
        r = rerun_text(small, c.build, prop, channels, workdir)
        dd = r.diffs[0] if r.diffs else d
        p = chk.write_replay("corr", f"# property={prop}\n# build={c.build} seed={c.seed} profile={c.profile}\n# correspondence broken on channel `{dd[0]}` at action {dd[1]} (the predicate holds on every explored history)\n# impl : {dd[2]}\n# model: {dd[3]}\n" + small)
        chk.violation(f"model and implementation disagree on channel {dd[0]} at action {dd[1]}: impl=`{dd[2]}` model=`{dd[3]}`", p, no_input=True)
    if not proof["ok"] and not new_pred:
        p = chk.write_replay("proof", f"# property={prop}\n# proof obligation no longer checks\n" + "\n".join(proof["failures"]) + "\n")
        chk.violation("proof obligations: " + "; ".join(proof["failures"]), p, no_input=True)
    try:
        os.rmdir(workdir)
    except OSError:
        pass
    return chk.finish(proof)


def replay(path, prop, spec):
    text = "".join(l for l in open(path) if not l.startswith("# property") and not l.startswith("# build") and not l.startswith("# predicate") and not l.startswith("# correspondence") and not l.startswith("# impl") and not l.startswith("# model"))
    os.makedirs(TMP, exist_ok=True)
    workdir = tempfile.mkdtemp(dir=TMP)
    common.build_lean(["driver"])
    bad = 0
    for b in spec.get("builds", ["debug"]):
        common.build_harness(b)
        c = rerun_text(text, b, prop, tuple(spec["channels"]), workdir)
        print(f"[{b}] predicate {prop}: {'holds' if c.verdict is None else c.verdict}")
        for d in c.diffs[:5]:
            print(f"[{b}] channel {d[0]} action {d[1]}: impl=`{d[2]}` model=`{d[3]}`")
        if c.error:
            print(f"[{b}] error: {c.error}")
        bad += (c.verdict is not None) or bool(c.diffs) or bool(c.error)
    return 1 if bad else 0
