#!/bin/sh
# usage: fixflow.sh pending-on | pending-off | commit Dk "message"
# pending-on : apply every not-yet-committed repair of /verif/fixes to /repo's working tree (model debugging)
# pending-off: /repo's working tree back to HEAD
set -e
cd /repo
case "$1" in
  pending-off) git checkout -- . ;;
  pending-on)
    git checkout -- .
    for p in /verif/fixes/D*.patch; do
      d=$(basename $p .patch)
      grep -qx "$d" /verif/fixes/committed.txt 2>/dev/null || git apply --recount $p
    done ;;
  commit)
    git checkout -- .
    git apply --recount /verif/fixes/$2.patch
    git commit -qam "$3"
    echo "$2" >> /verif/fixes/committed.txt
    git log --oneline -1 ;;
esac
