"""Regenerates the table of seeded changes in DESIGN.md (between the SEEDTABLE markers) from seeded/*/meta.json."""
import json, glob, os, re
ROOT = os.path.dirname(os.path.dirname(os.path.abspath(__file__)))
rows = ["| seeded change | breaks | the change | caught by |", "|---|---|---|---|"]
for f in sorted(glob.glob(os.path.join(ROOT, "seeded", "*", "meta.json"))):
    m = json.load(open(f))
    rows.append("| `%s` | %s | %s | %s |" % (m["id"], m["breaks_property"], m["change"].replace("|", "\\|"),
                                          "; ".join(m["caught_by"]).replace("|", "\\|")))
table = "<!-- SEEDTABLE-BEGIN -->\n" + "\n".join(rows) + "\n<!-- SEEDTABLE-END -->"
p = os.path.join(ROOT, "DESIGN.md")
s = open(p).read()
if "<!-- SEEDTABLE-BEGIN -->" in s:
    s = re.sub(r"<!-- SEEDTABLE-BEGIN -->.*?<!-- SEEDTABLE-END -->", lambda _: table, s, flags=re.S)
else:
    s = s.replace("SEEDTABLE", table, 1)
open(p, "w").write(s)
print(len(rows) - 2, "rows")
