"""Generators of engine histories (the language of IncrVerif/Engine/History.lean).

One PRNG (seeded by the caller) drives every choice.  Histories are well-formed in the sense of
DESIGN.md §6 unless a profile says otherwise.  Nodes are named by top-level creation ordinal.
"""
import random

MODS = [2, 3, 5, 7]


class Gen:
    def __init__(self, rng, profile="general", c01_safe=False):
        self.rng = rng
        self.profile = profile
        self.c01_safe = c01_safe
        self.lines = []
        self.defs = []
        self.nodes = []       # per top-level node: dict(kind=..., pair=bool, var=index or None)
        self.vars = []        # var index -> dict(node=k, alive=True)
        self.obs = []         # observer index -> dict(node=k, clones=int, disallowed=bool)
        self.tokens = []      # token index -> observer
        self.nfn = 0
        self.nbody = 0
        self.ncut = 0
        self.nfold = 0
        self.nhdl = 0
        self.stats = {}
        self.bodies_info = []
        self.experts = []
        self.nslot = 0

    def count(self, k):
        self.stats[k] = self.stats.get(k, 0) + 1

    # ---- definitions
    def new_fn(self, arity, effects=None, m=None):
        f = self.nfn
        self.nfn += 1
        m = m or self.rng.choice(MODS)
        cs = [self.rng.randint(0, 3)] + [self.rng.randint(1, 3) for _ in range(arity)]
        self.defs.append(f"fn f{f} lin {m} " + " ".join(map(str, cs)))
        if effects:
            self.defs.append(f"fneff f{f} " + " ; ".join(effects))
        return f

    def new_fold(self):
        f = self.nfold
        self.nfold += 1
        self.defs.append(f"folddef fold{f} {self.rng.choice(MODS)} {self.rng.randint(1,2)} {self.rng.randint(1,3)} {self.rng.randint(0,2)}")
        return f

    def new_cut(self):
        c = self.ncut
        self.ncut += 1
        self.defs.append(f"cut c{c} eqmod {self.rng.choice([2, 3])}")
        return c

    # ---- node choice
    def obs_node_ok(self, o):
        return self.obs[o]["node"] is not None

    def vnodes(self):
        return [k for k, n in enumerate(self.nodes) if not n["pair"] and not n.get("gone")]

    def pick(self, below=None):
        ks = [k for k in self.vnodes() if below is None or k < below]
        # favour recent nodes a little so that chains get deep
        if len(ks) > 3 and self.rng.random() < 0.5:
            ks = ks[-4:]
        return self.rng.choice(ks)

    def add_node(self, kind, pair=False, var=None):
        self.nodes.append({"kind": kind, "pair": pair, "var": var})
        return len(self.nodes) - 1

    # ---- actions
    def act(self, line):
        self.lines.append(line)

    def rand_val(self, pair):
        if pair:
            return f"({self.rng.randint(0, 2)},{self.rng.randint(0, 2)})"
        return str(self.rng.randint(0, 4))

    def mk_var(self, pair=False):
        self.act(f"var {self.rand_val(pair)}")
        k = self.add_node("var", var=len(self.vars))
        self.vars.append({"node": k, "alive": True, "pair": pair})
        self.count("var")

    def mk_const(self):
        self.act(f"const {self.rng.randint(0, 4)}")
        self.add_node("const")
        self.count("const")

    def rand_effects(self):
        effs = []
        alive = [v for v, x in enumerate(self.vars) if x["alive"] and not x.get("pair")]
        for _ in range(self.rng.choice([1, 1, 2])):
            r = self.rng.random()
            if r < 0.75 and alive:
                v = self.rng.choice(alive)
                effs.append(self.rng.choice([
                    f"setvar v{v} {self.rng.randint(0, 4)}", f"modvar v{v} {self.rng.randint(1, 3)}",
                    f"updvar v{v} {self.rng.randint(1, 3)}", f"replvar v{v} {self.rng.randint(0, 4)}",
                    f"replwvar v{v} {self.rng.randint(1, 3)}"]))
            elif self.obs:
                effs.append(f"readobs o{self.rng.randrange(min(2, len(self.obs)))}")
        for e in effs:
            self.count("eff_" + e.split()[0])
        return effs

    def mk_map(self):
        ar = self.rng.choice([1, 1, 5, 2, 2, 3, 4, 6])   # arity 5 was never generated (found by tools/coverage.py)
        effs = self.rand_effects() if self.profile == "varw" and self.rng.random() < 0.45 else None
        f = self.new_fn(ar, effs)
        args = [self.pick() for _ in range(ar)]
        self.act(f"map f{f} " + " ".join(f"n{a}" for a in args))
        self.add_node("map")
        self.count(f"map{ar}")

    def mk_fold(self):
        f = self.new_fold()
        n = self.rng.choice([0, 1, 2, 3, 4])
        args = [self.pick() for _ in range(n)]
        self.act(f"fold fold{f} {self.rng.randint(0,2)} " + " ".join(f"n{a}" for a in args))
        self.add_node("fold")
        self.count("fold")

    def mk_mapref(self):
        pairs = [k for k, n in enumerate(self.nodes) if n["kind"] == "pairmap"]
        p = self.rng.choice([0, 0, 1, 2])
        self.act(f"mapref p{p} n{self.pick()}")
        self.add_node("mapref")
        self.count("mapref")

    def mk_mapold(self):
        if self.c01_safe:
            g = 1
        else:
            g = self.rng.choice([0, 1, 1, 2, 3])
        self.act(f"mapold g{g} n{self.pick()}")
        self.add_node("mapold")
        self.count("mapold")

    def mk_zip(self):
        a, b = self.pick(), self.pick()
        self.act(f"zip n{a} n{b}")
        z = self.add_node("zip", pair=True)
        f = self.new_fn(1)
        self.act(f"map f{f} n{z}")
        self.add_node("pairmap")
        self.count("zip")

    def mk_dependon(self):
        self.act(f"dependon n{self.pick()} n{self.pick()}")
        self.add_node("dependon")
        self.count("dependon")

    def alt(self, lhs, depth):
        """one alternative of a bind body; returns text"""
        r = self.rng.random()
        nn = len(self.nodes)
        if r < 0.2:
            self.count("alt_existing")
            return f"ret n{self.pick()}"
        if r < 0.3:
            self.count("alt_lhs")
            return f"ret n{lhs}"
        if r < 0.4:
            self.count("alt_const")
            return self.rng.choice(["lhsconst ; ret %0", f"const {self.rng.randint(0,4)} ; ret %0"])
        if r < 0.6:
            f = self.new_fn(1)
            self.count("alt_map")
            return f"map f{f} n{self.pick()} ; ret %0"
        if r < 0.75:
            f = self.new_fn(2)
            g = self.new_fn(1)
            self.count("alt_map2_chain")
            return f"map f{f} n{self.pick()} n{self.rng.choice([lhs, self.pick()])} ; map f{g} %0 ; ret %1"
        if r < 0.85 and depth < 2 and self.bodies_info:
            b = self.rng.choice(self.bodies_info)
            self.count("alt_nested_bind")
            f = self.new_fn(1)
            return f"map f{f} n{self.pick()} ; bind b{b} %0 ; ret %1"
        if r < 0.93:
            f = self.new_fn(2)
            self.count("alt_lhsconst_map")
            return f"lhsconst ; map f{f} %0 n{self.pick()} ; ret %1"
        f = self.new_fn(1)
        g = self.new_fn(1)
        self.count("alt_unused_node")
        return f"map f{f} n{self.pick()} ; map f{g} n{self.pick()} ; ret %1"

    def mk_bind(self):
        lhs = self.pick()
        k = self.rng.choice([2, 2, 3])
        alts = [self.alt(lhs, 0) for _ in range(k)]
        b = self.nbody
        self.nbody += 1
        self.defs.append(f"body b{b} {k} " + " | ".join(alts))
        self.bodies_info.append(b)
        self.act(f"bind b{b} n{lhs}")
        self.add_node("bind")
        self.count("bind")

    def mk_expert(self):
        """an expert node, a driver (map with expert effects over some input) and the edge expert->driver"""
        kind = self.rng.choice(["sumdeps", "cbsum"])
        self.act(f"expert {kind} {self.rng.choice([5, 7])}")
        e = self.add_node("expert")
        self.experts.append(e)
        self.count("expert_" + kind)
        self.mk_driver(e)

    def mk_driver(self, e):
        cb = "cb" if self.nodes[e]["kind"] == "expert" and self.rng.random() < 0.7 else "nocb"
        effs = []
        r = self.rng.random()
        cands = [k for k in self.vnodes() if k != e and k < e]
        if not cands:
            return
        if r < 0.45:
            ts = [self.rng.choice(cands) for _ in range(self.rng.choice([2, 3]))]
            effs.append(f"xsel n{e} {cb} {self.rng.choice(['always', 'ifnew'])} " + " ".join(f"n{t}" for t in ts))
            self.count("drv_xsel")
        elif r < 0.8:
            effs.append(f"xadd n{e} n{self.rng.choice(cands)} {cb}")
            if self.rng.random() < 0.6:
                effs.append(f"xrm n{e} {self.rng.randint(0, 3)}")
            self.count("drv_xadd_xrm")
        elif r < 0.95:
            effs.append(f"xstale n{e}")
            self.count("drv_xstale")
        else:
            effs.append(f"xadd n{e} n{self.rng.choice(cands)} {cb}")
            effs.append(f"xadd n{e} n{self.rng.choice(cands)} {cb}")
            effs.append(f"xrm n{e} {self.rng.randint(0, 3)}")
            self.count("drv_dup")
        f = self.new_fn(1, effs)
        self.act(f"map f{f} n{self.rng.choice(cands)}")
        d = self.add_node("driver")
        self.act(f"adddep n{e} n{d} nocb")

    def mk_cutoff(self):
        k = self.pick()
        if self.c01_safe:
            c = self.rng.choice(["never", "eq"])
        else:
            c = self.rng.choice(["never", "always", "eq", "fn", "boxed"])
        if c in ("fn", "boxed"):
            if self.ncut >= 16:
                c = "never"
            else:
                c = f"{c} c{self.new_cut()}"
        self.act(f"cutoff n{k} {c}")
        self.count("cutoff_" + c.split()[0])

    def mk_observe(self):
        k = self.pick()
        self.act(f"observe n{k}")
        self.obs.append({"node": k, "clones": 1, "dis": False})
        self.count("observe")

    def live_obs(self):
        return [o for o, x in enumerate(self.obs) if x["clones"] > 0]

    def obs_action(self):
        live = self.live_obs()
        if not live:
            return self.mk_observe()
        o = self.rng.choice(live)
        r = self.rng.random()
        if r < 0.35 and (o >= 2 or self.obs[o]["clones"] > 1):
            # o0 and o1 keep one handle: closures and handlers may read them
            self.act(f"dropobs o{o}")
            self.obs[o]["clones"] -= 1
            self.count("dropobs")
        elif r < 0.5:
            self.act(f"cloneobs o{o}")
            self.obs[o]["clones"] += 1
            self.count("cloneobs")
        elif r < 0.65:
            self.act(f"disallow o{o}")
            self.obs[o]["dis"] = True
            self.count("disallow")
        else:
            self.mk_observe()

    def sub_action(self):
        live = self.live_obs()
        if not live:
            return self.mk_observe()
        o = self.rng.choice(live)
        r = self.rng.random()
        if r < 0.55 or not self.tokens:
            hid = self.rng.choice([0, 1, 2]) if self.profile == "varw" and self.vars[0]["alive"] else 0
            self.act(f"subscribe o{o} h{hid}")
            # the token exists only if the call succeeded; the model decides — we track optimistically
            if not self.obs[o]["dis"]:
                self.tokens.append(o)
            self.count("subscribe")
        elif r < 0.85:
            t = self.rng.randrange(len(self.tokens))
            # own observer mostly, sometimes a foreign one (Mismatch)
            oo = self.tokens[t] if self.rng.random() < 0.75 else o
            if self.obs[oo]["clones"] > 0:
                self.act(f"unsubscribe o{oo} t{t}")
                self.count("unsubscribe")
        else:
            t = self.rng.randrange(len(self.tokens))
            self.act(f"stateunsub t{t}")
            self.count("stateunsub")

    def var_action(self):
        alive = [v for v, x in enumerate(self.vars) if x["alive"]]
        if not alive:
            return
        v = self.rng.choice(alive)
        r = self.rng.random()
        if self.vars[v].get("pair"):
            if r < 0.85:
                self.act(f"set v{v} {self.rand_val(True)}")
                self.count("set")
            else:
                self.act(f"replace v{v} {self.rand_val(True)}")
                self.count("replace")
            return
        if r < 0.5:
            self.act(f"set v{v} {self.rng.randint(0, 4)}")
            self.count("set")
        elif r < 0.6:
            self.act(f"modify v{v} {self.rng.randint(0, 3)}")
            self.count("modify")
        elif r < 0.7:
            self.act(f"update v{v} {self.rng.randint(0, 3)}")
            self.count("update")
        elif r < 0.8:
            self.act(f"replace v{v} {self.rng.randint(0, 4)}")
            self.count("replace")
        elif r < 0.88:
            self.act(f"replacewith v{v} {self.rng.randint(0, 3)}")
            self.count("replacewith")
        elif r < 0.96:
            self.act(f"get v{v}")
            self.count("get")
        elif self.profile != "varw":
            self.act(f"dropvar v{v}")
            self.vars[v]["alive"] = False
            self.count("dropvar")

    # ---- motifs: small directed shapes that the mechanisms of C01-C06 live on ------------------
    def motif_heights(self):
        """a bind over a bind whose right-hand side changes height; the outer closure builds a node it drops"""
        self.mk_var(); v0 = len(self.nodes) - 1
        self.mk_var(); v1 = len(self.nodes) - 1
        last = v1
        for _ in range(self.rng.randint(2, 4)):
            f = self.new_fn(1)
            self.act(f"map f{f} n{last}")
            last = self.add_node("map")
        b1 = self.nbody; self.nbody += 1
        alts = [f"ret n{v1}", f"ret n{last}"]
        self.rng.shuffle(alts)
        self.defs.append(f"body b{b1} 2 " + " | ".join(alts))
        self.bodies_info.append(b1)
        self.act(f"bind b{b1} n{v0}")
        m1 = self.add_node("bind")
        f, g = self.new_fn(1), self.new_fn(1)
        b2 = self.nbody; self.nbody += 1
        self.defs.append(f"body b{b2} 2 map f{f} n{v1} ; map f{g} n{m1} ; ret %1 | map f{g} n{v0} ; lhsconst ; ret %1")
        self.bodies_info.append(b2)
        self.act(f"bind b{b2} n{m1}")
        self.add_node("bind")
        self.count("motif_heights")

    def motif_shared(self):
        """a chain observed first, then a bind on the chain's source whose closure builds over the chain's end"""
        self.mk_var(); x = len(self.nodes) - 1
        last = x
        for _ in range(self.rng.randint(1, 3)):
            f = self.new_fn(1)
            self.act(f"map f{f} n{last}")
            last = self.add_node("map")
        if self.rng.random() < 0.7:
            self.act(f"observe n{last}")
            self.obs.append({"node": last, "clones": 1, "dis": False})
        g, g2 = self.new_fn(1), self.new_fn(2)
        b = self.nbody; self.nbody += 1
        alts = [f"map f{g} n{last} ; ret %0", f"map f{g2} n{last} n{x} ; ret %0", f"ret n{last}"]
        self.rng.shuffle(alts)
        self.defs.append(f"body b{b} 3 " + " | ".join(alts))
        self.bodies_info.append(b)
        self.act(f"bind b{b} n{x}")
        m = self.add_node("bind")
        if self.rng.random() < 0.6:
            f = self.new_fn(1)
            self.act(f"map f{f} n{m}")
            m = self.add_node("map")
        self.act(f"observe n{m}")
        self.obs.append({"node": m, "clones": 1, "dis": False})
        self.count("motif_shared")

    def motif_leak(self):
        """a node built inside a (nested) bind closure is handed out through a shared cell and observed directly;
        later the outer left-hand side changes (the node must become invalid) and then the node's own input"""
        self.mk_var(); outer = len(self.nodes) - 1
        self.mk_var(); inner = len(self.nodes) - 1
        self.mk_var(); x = len(self.nodes) - 1
        f = self.new_fn(1, m=7)
        slot = self.nslot; self.nslot += 1
        nested = self.rng.random() < 0.5
        rng2 = random.Random(hash(self.rng.getstate()[1]))      # side stream: the main stream keeps its meaning
        src = x
        if rng2.random() < 0.5:
            # the closure's node reads a top-level map over the variable, not the variable itself: if the dead node kept
            # its input needed, that map's FUNCTION would run with no live observer (seeded change c05-invalidated-observer-only…)
            g0 = self.new_fn(1, m=7)
            self.act(f"map f{g0} n{x}")
            src = self.add_node("map")
        bi = self.nbody; self.nbody += 1
        self.defs.append(f"body b{bi} 2 map f{f} n{src} ; pub s{slot} %0 ; ret %0 | map f{f} n{src} ; pub s{slot} %0 ; ret %0")
        self.bodies_info.append(bi)
        if nested:
            bo = self.nbody; self.nbody += 1
            self.defs.append(f"body b{bo} 2 bind b{bi} n{inner} ; ret %0 | bind b{bi} n{inner} ; ret %0")
            self.bodies_info.append(bo)
            self.act(f"bind b{bo} n{outer}")
        else:
            self.act(f"bind b{bi} n{outer}")
        m = self.add_node("bind")
        self.act(f"observe n{m}")
        self.obs.append({"node": m, "clones": 1, "dis": False})
        self.act("stabilise")
        self.act(f"observe @s{slot}")
        self.obs.append({"node": None, "clones": 1, "dis": False})
        leaked = len(self.obs) - 1
        if self.rng.random() < 0.6:
            self.act(f"subscribe o{leaked} h0")
            self.tokens.append(leaked)
        self.act("stabilise")
        vo, vi, vx = self.nodes[outer]["var"], self.nodes[inner]["var"], self.nodes[x]["var"]
        seq = [f"set v{vx} {self.rng.randint(0, 4)}", f"set v{vo} {self.rng.randint(0, 4)}"]
        if self.rng.random() < 0.5:
            seq.reverse()
        if nested and self.rng.random() < 0.5:
            seq.append(f"set v{vi} {self.rng.randint(0, 4)}")
        if rng2.random() < 0.35:
            seq = [a for a in seq if not a.startswith(f"set v{vx} ")]      # the dead node's input is NOT written while observers live
            late = self.rng.randint(0, 4)
        else:
            late = None
        for a in seq:
            self.act(a)
        self.act("stabilise")
        if late is None:
            self.act(f"set v{vx} {self.rng.randint(0, 4)}")
            self.act("stabilise")
        if leaked in self.tokens and self.rng.random() < 0.6:
            # the node is invalid by now: a further subscription / observer on it must not make the first
            # subscriber hear `Invalidated` a second time
            self.act(f"subscribe o{leaked} h0")
            self.act("stabilise")
            self.act(f"observe @s{slot}")
            self.obs.append({"node": None, "clones": 1, "dis": False})
            self.act("stabilise")
        if rng2.random() < 0.6:
            # everything unobserved, then the input is written: nothing may run
            for o, ob in enumerate(self.obs):
                if ob["clones"] > 0 and not ob["dis"]:
                    self.act(f"disallow o{o}"); ob["dis"] = True
            self.act("stabilise")
            self.act(f"set v{vx} {rng2.randint(0, 4)}")
            self.act("stabilise")
            self.act(f"set v{vx} {rng2.randint(5, 6)}")
            self.act("stabilise")
        self.count("motif_leak" + ("_nested" if nested else ""))

    def motif_scoped_var(self):
        """a variable made with `var_current_scope` inside a bind closure, handed out through a shared cell (its
        ordinal is known: closures run in a known order here); the bind re-runs (the variable's watch node becomes
        invalid) and the variable is written afterwards, observed directly or not (D14)"""
        rng = self.rng
        self.mk_var(); outer = len(self.nodes) - 1
        vo = self.nodes[outer]["var"]
        f = self.new_fn(1, m=7)
        slot = self.nslot; self.nslot += 1
        bi = self.nbody; self.nbody += 1
        c1, c2 = rng.randint(0, 4), rng.randint(0, 4)
        self.defs.append(f"body b{bi} 2 scopedvar {c1} ; pub s{slot} %0 ; map f{f} %0 ; ret %1 | "
                         f"scopedvar {c2} ; pub s{slot} %0 ; map f{f} %0 ; ret %1")
        # not offered for reuse (`bodies_info`): every further run would shift the ordinals of later variables
        self.act(f"bind b{bi} n{outer}")
        m = self.add_node("bind")
        self.act(f"observe n{m}")
        self.obs.append({"node": m, "clones": 1, "dis": False})
        self.act("stabilise")
        k1 = len(self.vars)
        self.vars.append({"node": None, "alive": False, "pair": False, "scoped": True})
        def write(k):
            op = rng.choice(["set", "set", "modify", "update", "replace", "replacewith"])
            if op in ("set", "replace"):
                self.act(f"{op} v{k} {rng.randint(0, 4)}")
            else:
                self.act(f"{op} v{k} {rng.randint(1, 3)}")
        if rng.random() < 0.6:
            self.act(f"observe @s{slot}")
            self.obs.append({"node": None, "clones": 1, "dis": False})
            if rng.random() < 0.5:
                self.act(f"subscribe o{len(self.obs) - 1} h0")
                self.tokens.append(len(self.obs) - 1)
            self.act("stabilise")
        if rng.random() < 0.5:
            write(k1)
            self.act("stabilise")
        self.act(f"modify v{vo} 1")
        if rng.random() < 0.3:
            write(k1)            # written in the same round in which its scope dies
        self.act("stabilise")
        k2 = len(self.vars)
        self.vars.append({"node": None, "alive": False, "pair": False, "scoped": True})
        write(k1)
        if rng.random() < 0.5:
            self.act("stabilise")
            write(k1)
        write(k2)
        self.act("stabilise")
        if rng.random() < 0.4:
            self.act(f"dropvar v{k1}")
            self.act("stabilise")
        self.act(f"get v{k2}")
        self.vars[vo]["alive"] = False      # frozen: further re-runs would shift the ordinals of later variables
        self.count("motif_scoped_var")

    def motif_var_dropped_in_closure(self):
        """a node function writes a variable (deferred: we are stabilising) and the variable's last handle is dropped
        later in the same stabilise, while another node still reads the variable's watch node (C08/C12)"""
        rng = self.rng
        self.mk_var(); x = len(self.nodes) - 1; vx = self.nodes[x]["var"]
        self.mk_var(); t = len(self.nodes) - 1; vt = self.nodes[t]["var"]
        self.vars[vx]["alive"] = False          # from now on only the closures below touch it
        c = rng.randint(0, 4)
        w = rng.choice([f"setvar v{vx} {c}", f"modvar v{vx} {rng.randint(1, 3)}", f"replvar v{vx} {c}"])
        if rng.random() < 0.5:
            fa = self.new_fn(1, [w, f"dropvar v{vx}"])
            self.act(f"map f{fa} n{t}"); a = self.add_node("map")
            last = a
        else:
            fa = self.new_fn(1, [w])
            fb = self.new_fn(1, [f"dropvar v{vx}"])
            self.act(f"map f{fa} n{t}"); a = self.add_node("map")
            self.act(f"map f{fb} n{a}"); last = self.add_node("map")
        g = self.new_fn(1, m=7)
        self.act(f"map f{g} n{x}"); r = self.add_node("map")
        for k in (last, r):
            self.act(f"observe n{k}")
            self.obs.append({"node": k, "clones": 1, "dis": False})
        self.act("stabilise")
        self.act("stabilise")
        if rng.random() < 0.5:
            self.act(f"modify v{vt} 1")          # the closures run again: their writes are now no-ops
            self.act("stabilise")
        self.count("motif_var_dropped_in_closure")

    def motif_var_dies_in_stabilise(self):
        """the LAST handle of a variable is given up by a node function, i.e. during a stabilise, after the program has
        dropped its own handle on the watch node and nothing depends on it: that ONE stabilise must release the variable
        and its watch node (the Var <-> watch cycle is broken at the end of the stabilise in which the variable died;
        seeded change c12-dead-vars-broken-at-start)"""
        rng = self.rng
        self.mk_var(); x = len(self.nodes) - 1; vx = self.nodes[x]["var"]
        self.mk_var(); t = len(self.nodes) - 1; vt = self.nodes[t]["var"]
        self.vars[vx]["alive"] = False          # from now on only the closure below touches it
        self.nodes[x]["gone"] = True
        effs = [f"dropvar v{vx}"]
        if rng.random() < 0.5:
            effs.insert(0, rng.choice([f"setvar v{vx} {rng.randint(0, 4)}", f"modvar v{vx} {rng.randint(1, 3)}"]))
        fa = self.new_fn(1, effs)
        self.act(f"map f{fa} n{t}"); a = self.add_node("map")
        self.act(f"drophandle n{x}")
        self.act(f"observe n{a}")
        self.obs.append({"node": a, "clones": 1, "dis": False})
        self.act("stabilise")                    # the closure runs: the variable dies during this stabilise
        self.act("isstable")
        self.act("stats")
        if rng.random() < 0.5:
            self.act(f"modify v{vt} 1")          # the closure runs again: its effects are now no-ops
            self.act("stabilise")
        self.count("motif_var_dies_in_stabilise")

    def motif_equal_deferred_write(self):
        """a variable with a non-default cutoff is written, from inside a node function, with the value it already has:
        the write must still reach the graph at the next stabilise (with `never` its dependants run again)"""
        rng = self.rng
        c = rng.randint(0, 4)
        self.act(f"var {c}"); x = self.add_node("var", var=len(self.vars))
        self.vars.append({"node": x, "alive": True, "pair": False})
        vx = self.nodes[x]["var"]
        self.mk_var(); t = len(self.nodes) - 1; vt = self.nodes[t]["var"]
        self.act(f"cutoff n{x} {rng.choice(['never', 'never', 'always', 'eq'])}")
        fa = self.new_fn(1, [rng.choice([f"setvar v{vx} {c}", f"replvar v{vx} {c}", f"modvar v{vx} 0"])])
        self.act(f"map f{fa} n{t}"); a = self.add_node("map")
        g = self.new_fn(1, m=7)
        self.act(f"map f{g} n{x}"); r = self.add_node("map")
        for k in (a, r):
            self.act(f"observe n{k}")
            self.obs.append({"node": k, "clones": 1, "dis": False})
        self.act("stabilise")
        self.act("stabilise")
        self.act(f"modify v{vt} 1")
        self.act("stabilise")
        self.act("stabilise")
        self.count("motif_equal_deferred_write")

    def motif_expert_stale(self):
        """two expert nodes sharing one driver whose own value never changes and which only calls make_stale;
        one of them is unobserved while the driver runs and observed again later"""
        self.mk_var(); v = len(self.nodes) - 1
        es = []
        for _ in range(2):
            self.act(f"expert {self.rng.choice(['sumdeps', 'cbsum'])} 7")
            es.append(self.add_node("expert")); self.experts.append(es[-1])
        f = self.new_fn(1, [f"xstale n{es[0]}", f"xstale n{es[1]}"], m=1)
        self.act(f"map f{f} n{v}")
        d = self.add_node("driver")
        for e in es:
            self.act(f"adddep n{e} n{d} nocb")
        # a second, changing dependency so that the sums are visible
        g = self.new_fn(1, m=7)
        self.act(f"map f{g} n{v}")
        w = self.add_node("map")
        self.act(f"adddep n{es[0]} n{w} cb")
        obs_ids = []
        for e in es:
            self.act(f"observe n{e}")
            self.obs.append({"node": e, "clones": 1, "dis": False}); obs_ids.append(len(self.obs) - 1)
        self.act("stabilise")
        vi = self.nodes[v]["var"]
        self.act(f"disallow o{obs_ids[0]}"); self.obs[obs_ids[0]]["dis"] = True
        self.act("stabilise")
        self.act(f"set v{vi} {self.rng.randint(0, 4)}")
        self.act("stabilise")
        self.act(f"observe n{es[0]}")
        self.obs.append({"node": es[0], "clones": 1, "dis": False})
        self.act("stabilise")
        self.act(f"set v{vi} {self.rng.randint(0, 4)}")
        self.act("stabilise")
        self.count("motif_expert_stale")

    def motif_expert_late_target(self):
        """an observed, computed expert node gets (from its driver) a dependency with a callback on a node that is
        unnecessary at that moment but holds an up-to-date value (it was observed and unobserved before)"""
        self.mk_var(); v = len(self.nodes) - 1
        self.mk_var(); t0 = len(self.nodes) - 1
        g = self.new_fn(1, m=7)
        self.act(f"map f{g} n{t0}")
        target = self.add_node("map")
        self.act(f"observe n{target}")
        self.obs.append({"node": target, "clones": 1, "dis": False}); ot = len(self.obs) - 1
        self.act(f"expert cbsum 7")
        e = self.add_node("expert"); self.experts.append(e)
        k = self.rng.choice([2, 3])
        f = self.new_fn(1, [f"xsel n{e} cb ifnew " + " ".join([f"n{v}"] * (k - 1) + [f"n{target}"])])
        self.act(f"map f{f} n{v}")
        d = self.add_node("driver")
        self.act(f"adddep n{e} n{d} nocb")
        self.act(f"observe n{e}")
        self.obs.append({"node": e, "clones": 1, "dis": False})
        self.act("stabilise")
        if ot >= 2:
            self.act(f"dropobs o{ot}"); self.obs[ot]["clones"] -= 1
        else:
            self.act(f"disallow o{ot}"); self.obs[ot]["dis"] = True
        self.act("stabilise")
        vi = self.nodes[v]["var"]
        for x in self.rng.sample(range(0, 5), 3):
            self.act(f"set v{vi} {x}")
            self.act("stabilise")
        self.count("motif_expert_late_target")

    def motif_expert_invalid_dep(self):
        """an expert node depends (through its driver's `xsel`) on a node built inside a bind; in ONE stabilise that bind
        re-runs (the dependency becomes invalid) and the expert node drops out of the observed graph (a second bind
        switches away from it); later it comes back and its driver replaces the dead dependency"""
        rng = self.rng
        self.mk_var(); x = len(self.nodes) - 1; vx = self.nodes[x]["var"]
        self.mk_var(); sel = len(self.nodes) - 1; vs = self.nodes[sel]["var"]
        self.mk_var(); dv = len(self.nodes) - 1; vd = self.nodes[dv]["var"]
        self.mk_var(); base = len(self.nodes) - 1; vb = self.nodes[base]["var"]
        for v in (vx, vs, vd, vb):
            self.vars[v]["alive"] = False
        g = self.new_fn(1, m=7)
        slot = self.nslot; self.nslot += 1
        bB = self.nbody; self.nbody += 1
        self.defs.append(f"body b{bB} 2 map f{g} n{base} ; pub s{slot} %0 ; ret %0 | map f{g} n{base} ; pub s{slot} %0 ; ret %0")
        self.act(f"bind b{bB} n{x}"); B = self.add_node("bind")
        self.act(f"observe n{B}"); self.obs.append({"node": B, "clones": 1, "dis": False})
        self.act("stabilise")
        self.act("expert sumdeps 7"); e = self.add_node("expert"); self.experts.append(e)
        f = self.new_fn(1, [f"xsel n{e} {rng.choice(['nocb', 'cb'])} always @s{slot} @s{slot}"])
        self.act(f"map f{f} n{dv}"); d = self.add_node("driver")
        self.act(f"adddep n{e} n{d} nocb")
        bS = self.nbody; self.nbody += 1
        self.defs.append(f"body b{bS} 2 ret n{e} | lhsconst ; ret %0")
        self.act(f"set v{vs} 0")
        self.act(f"bind b{bS} n{sel}"); S = self.add_node("bind")
        self.act(f"observe n{S}"); self.obs.append({"node": S, "clones": 1, "dis": False})
        self.act("stabilise")
        acts = [f"modify v{vx} 1", f"set v{vs} 1"]
        rng.shuffle(acts)
        for a in acts:
            self.act(a)
        self.act("stabilise")
        self.act(f"set v{vs} 0")
        self.act(f"modify v{vd} 1")
        self.act("stabilise")
        self.act(f"modify v{vb} 1")
        self.act("stabilise")
        self.count("motif_expert_invalid_dep")

    def motif_dependon_reobserve(self):
        """`a.depend_on(b)` below a map, observed, unobserved while `a` (kept necessary by its own observer) changes and is
        recomputed, then observed again: the depend_on node is re-linked with stamps that have drifted apart
        (seeded change c01-dependon-cutoff-by-recomputed-at)"""
        self.mk_var(); a = len(self.nodes) - 1
        self.mk_var(); b = len(self.nodes) - 1
        va, vb = self.nodes[a]["var"], self.nodes[b]["var"]
        self.act(f"observe n{a}")
        self.obs.append({"node": a, "clones": 1, "dis": False})
        self.act(f"dependon n{a} n{b}")
        d = self.add_node("dependon")
        f = self.new_fn(1, m=7)
        self.act(f"map f{f} n{d}")
        m = self.add_node("map")
        x = self.rng.randint(0, 4)
        for _ in range(self.rng.randint(1, 2)):
            self.act(f"observe n{m}")
            self.obs.append({"node": m, "clones": 1, "dis": False})
            om = len(self.obs) - 1
            self.act("stabilise")
            if self.rng.random() < 0.5:
                x = (x + self.rng.randint(1, 3)) % 5
                self.act(f"set v{va} {x}")
                self.act("stabilise")
            self.act(f"disallow o{om}"); self.obs[om]["dis"] = True
            self.act("stabilise")
            for _ in range(self.rng.randint(1, 2)):
                x = (x + self.rng.randint(1, 3)) % 5
                self.act(f"set v{va} {x}")
                if self.rng.random() < 0.3:
                    self.act(f"set v{vb} {self.rng.randint(0, 4)}")
                self.act("stabilise")
        self.act(f"observe n{m}")
        self.obs.append({"node": m, "clones": 1, "dis": False})
        self.act("stabilise")
        self.count("motif_dependon_reobserve")

    def motif_cutoff_reobserve(self):
        """a chain whose tail is often cut off (function with many collisions), observed, unobserved and
        observed again with and without writes in between"""
        self.mk_var(); v = len(self.nodes) - 1
        f = self.new_fn(1, m=7)
        self.act(f"map f{f} n{v}")
        a = self.add_node("map")
        g = self.new_fn(1, m=2)
        self.act(f"map f{g} n{a}")
        b = self.add_node("map")
        h = self.new_fn(1, m=7)
        self.act(f"map f{h} n{b}")
        c = self.add_node("map")
        vi = self.nodes[v]["var"]
        for _ in range(self.rng.randint(1, 2)):
            self.act(f"observe n{c}")
            self.obs.append({"node": c, "clones": 1, "dis": False})
            oc = len(self.obs) - 1
            self.act("stabilise")
            for _ in range(self.rng.randint(1, 3)):
                self.act(f"set v{vi} {self.rng.randint(0, 4)}")
                self.act("stabilise")
            if oc >= 2:
                self.act(f"dropobs o{oc}"); self.obs[oc]["clones"] -= 1
            else:
                self.act(f"disallow o{oc}"); self.obs[oc]["dis"] = True
            self.act("stabilise")
            if self.rng.random() < 0.4:
                self.act(f"set v{vi} {self.rng.randint(0, 4)}")
        self.act(f"observe n{c}")
        self.obs.append({"node": c, "clones": 1, "dis": False})
        self.act("stabilise")
        self.count("motif_cutoff_reobserve")

    def motif_two_binds(self):
        """two binds that may both return (a dependant of) one shared, otherwise unobserved node"""
        self.mk_var(); y = len(self.nodes) - 1
        self.mk_var(); l1 = len(self.nodes) - 1
        self.mk_var(); l2 = len(self.nodes) - 1
        f = self.new_fn(1, m=7)
        self.act(f"map f{f} n{y}")
        n = self.add_node("map")
        other = self.pick(below=n)
        for lhs in (l1, l2):
            g = self.new_fn(1, m=7)
            b = self.nbody; self.nbody += 1
            alts = [f"ret n{n}", self.rng.choice([f"ret n{other}", f"map f{g} n{n} ; ret %0", "lhsconst ; ret %0"])]
            self.rng.shuffle(alts)
            self.defs.append(f"body b{b} 2 " + " | ".join(alts))
            self.bodies_info.append(b)
            self.act(f"bind b{b} n{lhs}")
            m = self.add_node("bind")
            self.act(f"observe n{m}")
            self.obs.append({"node": m, "clones": 1, "dis": False})
        self.act("stabilise")
        for _ in range(self.rng.randint(1, 3)):
            acts = [f"set v{self.nodes[y]['var']} {self.rng.randint(0, 4)}",
                    f"set v{self.nodes[l1]['var']} {self.rng.randint(0, 3)}",
                    f"set v{self.nodes[l2]['var']} {self.rng.randint(0, 3)}"]
            self.rng.shuffle(acts)
            for a in acts:
                self.act(a)
            self.act("stabilise")
        self.count("motif_two_binds")

    def motif_same_rhs(self):
        """a bind whose closure returns the SAME pre-existing node for different inputs; the input changes (the bind
        re-runs and re-selects the node), then every observer goes away and the node's own input is written: nothing
        may run any more"""
        rng = self.rng
        self.mk_var(); y = len(self.nodes) - 1
        self.mk_var(); lhs = len(self.nodes) - 1
        f = self.new_fn(1, m=7)
        self.act(f"map f{f} n{y}")
        n = self.add_node("map")
        b = self.nbody; self.nbody += 1
        third = rng.choice([f"ret n{n}", "lhsconst ; ret %0"])
        self.defs.append(f"body b{b} 3 ret n{n} | ret n{n} | {third}")
        self.bodies_info.append(b)
        self.act(f"bind b{b} n{lhs}")
        m = self.add_node("bind")
        self.act(f"observe n{m}")
        self.obs.append({"node": m, "clones": 1, "dis": False})
        o = len(self.obs) - 1
        self.act("stabilise")
        vl, vy = self.nodes[lhs]["var"], self.nodes[y]["var"]
        for _ in range(rng.randint(1, 3)):
            self.act(f"modify v{vl} {rng.choice([1, 1, 2, 3])}")
            if rng.random() < 0.4:
                self.act(f"modify v{vy} 1")
            self.act("stabilise")
        if o >= 2 and rng.random() < 0.5:       # o0 and o1 keep one handle: closures and handlers may read them
            self.act(f"dropobs o{o}")
            self.obs[o]["clones"] -= 1
        else:
            self.act(f"disallow o{o}")
        self.obs[o]["dis"] = True
        if rng.random() < 0.7:
            self.act("stabilise")
        self.act(f"modify v{vy} 1")
        self.act("stabilise")
        self.act(f"modify v{vy} 2")
        self.act("stabilise")
        self.count("motif_same_rhs")

    def motif_mapref(self):
        """map_ref projections of a pair-valued var, consumers observed and unobserved while the source moves"""
        self.mk_var(pair=True); src = len(self.nodes) - 1
        a0, b0 = self.lines[-1].split()[1].strip("()").split(",")
        self.cur = (int(a0), int(b0))
        p = self.rng.choice([1, 2])
        self.act(f"mapref p{p} n{src}")
        r = self.add_node("mapref")
        if self.rng.random() < 0.4:
            self.act(f"mapref p0 n{r}")
            r = self.add_node("mapref")
        g = self.new_fn(1, m=7)
        self.act(f"map f{g} n{r}")
        m = self.add_node("map")
        if self.rng.random() < 0.3 and not self.c01_safe and self.ncut < 16:
            self.act(f"cutoff n{r} boxed c{self.new_cut()}")
        self.act(f"observe n{src}")
        self.obs.append({"node": src, "clones": 1, "dis": False})
        self.act(f"observe n{m}")
        self.obs.append({"node": m, "clones": 1, "dis": False})
        om = len(self.obs) - 1
        self.count("motif_mapref")
        if self.rng.random() < 0.85:
            # the consumer goes unobserved while the projection moves (or not), then comes back
            v = self.nodes[src]["var"]
            def setp(change_proj):
                a, b = self.rng.randint(0, 2), self.rng.randint(0, 2)
                keep = self.cur[p - 1]
                new = [a, b]
                if not change_proj:
                    new[p - 1] = keep
                    new[2 - p] = (self.cur[2 - p] + 1) % 3
                else:
                    new[p - 1] = (keep + 1 + self.rng.randint(0, 1)) % 3
                self.cur = tuple(new)
                self.act(f"set v{v} ({new[0]},{new[1]})")
            self.act("stabilise")
            setp(False); self.act("stabilise")
            if om >= 2:
                self.act(f"dropobs o{om}"); self.obs[om]["clones"] -= 1
            else:
                self.act(f"disallow o{om}"); self.obs[om]["dis"] = True
            if self.rng.random() < 0.5:
                self.act("stabilise")
            setp(True)
            if self.rng.random() < 0.7:
                self.act("stabilise")
            self.act(f"observe n{m}")
            self.obs.append({"node": m, "clones": 1, "dis": False})
            if self.rng.random() < 0.5:
                setp(False)
            self.act("stabilise")
            self.count("motif_mapref_script")

    def build(self, n_actions):
        rng = self.rng
        self.defs += ["proj p0 id", "proj p1 fst", "proj p2 snd",
                      "old g0 sum 5", "old g1 echo", "old g2 flag 1", "old g3 flag 0", "hdl h0",
                      "hdl h1 " + rng.choice(["modvar v0 1", "modvar v0 1", "replvar v0 2", "replwvar v0 1", "updvar v0 2", "setvar v0 3"]),
                      "hdl h2 readobs o0"]
        for _ in range(rng.randint(1, 3)):
            self.mk_var()
        if self.profile in ("bind", "general", "static", "expert", "varw"):
            r = rng.random()
            if self.profile == "expert" and r < 0.5:
                (self.motif_expert_stale if r < 0.2 else self.motif_expert_late_target if r < 0.35
                 else self.motif_expert_invalid_dep)()
            elif r < 0.07 and self.profile in ("bind", "general", "varw"):
                self.motif_scoped_var()
            elif 0.93 < r and self.profile in ("varw", "general") and not self.c01_safe:
                self.motif_var_dropped_in_closure()
            elif 0.80 < r <= 0.86 and self.profile == "varw":
                self.motif_equal_deferred_write()
            elif r < 0.12 and self.profile != "static":
                self.motif_leak()
            elif 0.86 < r <= 0.93 and self.profile in ("bind", "general", "life"):
                self.motif_same_rhs()
            elif r < 0.18 and self.profile != "static":
                self.motif_two_binds()
            elif r < 0.3 and self.profile != "static":
                self.motif_heights()
            elif r < 0.5 and self.profile != "static":
                self.motif_shared()
            elif r < 0.56 and (self.profile != "static" or r < 0.15):
                self.motif_dependon_reobserve()
            elif r < 0.7:
                self.motif_mapref()
            elif 0.75 < r <= 0.80 and self.profile in ("general", "bind", "varw") and not self.c01_safe:
                self.motif_var_dies_in_stabilise()
            elif r < 0.85:
                self.motif_cutoff_reobserve()
        weights = {
            "general": dict(var=2, const=1, map=10, fold=3, mapref=3, mapold=3, zip=2, dependon=2, bind=6,
                            cutoff=4, observe=8, obs=6, sub=5, varw=14, stab=12),
            "static": dict(var=2, const=1, map=12, fold=4, mapref=4, mapold=4, zip=2, dependon=2, bind=0,
                           cutoff=5, observe=8, obs=6, sub=0, varw=16, stab=12),
            "bind": dict(var=2, const=1, map=8, fold=1, mapref=1, mapold=1, zip=0, dependon=1, bind=10,
                         cutoff=2, observe=8, obs=5, sub=2, varw=16, stab=12),
            "expert": dict(var=2, const=1, map=6, fold=1, mapref=1, mapold=1, zip=0, dependon=0, bind=2,
                           cutoff=2, observe=8, obs=5, sub=1, varw=16, stab=12, expert=6, driver=4),
            "varw": dict(var=3, const=0, map=10, fold=1, mapref=1, mapold=1, zip=0, dependon=0, bind=2,
                         cutoff=2, observe=8, obs=3, sub=5, varw=20, stab=12),
            "life": dict(var=1, const=0, map=2, fold=0, mapref=0, mapold=0, zip=0, dependon=0, bind=1,
                         cutoff=0, observe=10, obs=16, sub=10, varw=6, stab=10),
            "subs": dict(var=1, const=0, map=5, fold=0, mapref=1, mapold=1, zip=0, dependon=0, bind=2,
                         cutoff=2, observe=8, obs=8, sub=14, varw=12, stab=12),
        }[self.profile]
        ops = list(weights)
        ws = [weights[o] for o in ops]
        for _ in range(n_actions):
            op = rng.choices(ops, ws)[0]
            if op == "var":
                self.mk_var()
            elif op == "const":
                self.mk_const()
            elif op == "map":
                self.mk_map()
            elif op == "fold":
                self.mk_fold()
            elif op == "mapref":
                self.mk_mapref()
            elif op == "mapold":
                self.mk_mapold()
            elif op == "zip":
                self.mk_zip()
            elif op == "dependon":
                self.mk_dependon()
            elif op == "bind":
                self.mk_bind()
            elif op == "cutoff":
                self.mk_cutoff()
            elif op == "observe":
                self.mk_observe()
            elif op == "obs":
                self.obs_action()
            elif op == "sub":
                self.sub_action()
            elif op == "varw":
                self.var_action()
            elif op == "expert":
                self.mk_expert()
            elif op == "driver":
                if self.experts:
                    e = self.rng.choice(self.experts)
                    if self.rng.random() < 0.4:
                        # a dependency added from outside, possibly while the node is observed
                        cands = [k for k in self.vnodes() if k < e]
                        if cands:
                            self.act(f"adddep n{e} n{self.rng.choice(cands)} {self.rng.choice(['cb', 'nocb'])}")
                            self.count("adddep_toplevel")
                    else:
                        self.mk_driver(e)
            elif op == "stab":
                self.act("stabilise")
                self.count("stabilise")
        self.act("stabilise")
        self.act("stabilise")
        return "\n".join(self.defs + self.lines) + "\n"


def rand_map(rng, keys=6, vals=3, p=0.5):
    return {k: rng.randint(0, vals) for k in range(1, keys + 1) if rng.random() < p}


def fmt_vmap(m):
    return "{" + ",".join(f"{k}:{v}" for k, v in sorted(m.items())) + "}"


def edit_map(rng, m, keys=6, vals=3):
    m = dict(m)
    r = rng.random()
    if r < 0.08:
        return {}
    if r < 0.16:
        return rand_map(rng, keys, vals)
    if r < 0.24:
        return m                      # equal map written again
    for _ in range(rng.randint(1, 3)):
        k = rng.randint(1, keys)
        q = rng.random()
        if q < 0.35:
            m.pop(k, None)
        else:
            m[k] = rng.randint(0, vals)
    return m


def gen_maps(rng, debug=True, perkey=False):
    """C15/C16/C17: incremental-map operators over map-valued vars, edit sequences with emptying and refilling,
    observe / unobserve / re-observe of the outputs, an outer variable for the per-key families"""
    stats = {}
    def count(k):
        stats[k] = stats.get(k, 0) + 1
    lines = [f"cfg {'debug' if debug else 'release'}"]
    defs, acts = [], []
    nmf = 0
    maps = [rand_map(rng), rand_map(rng)]
    acts.append(f"var {fmt_vmap(maps[0])}")
    acts.append(f"var {fmt_vmap(maps[1])}")
    acts.append(f"var {rng.randint(0, 4)}")        # n2: outer variable
    nodes = 3
    nabs = 3          # creation index of the next node (all operators are built before the first stabilise)
    inputs = []       # per fm/fold/part operator: its input node (the conversion node), which a user program holds
    outs = []
    defs += ["fn f0 lin 7 0 2 1", "fn f1 lin 7 1 1", "fn f2 lin 7 0 1 1", "fn f3 lin 7 1 3",
             "pk P0 lhsconst ; map f0 %0 %1 ; ret %2",        # pure function of value and key
             "pk P1 map f1 n2 ; ret %1",                       # ignores its input
             "pk P2 ret n2",                                   # one shared pre-existing node
             "pk P3 lhsconst ; map f2 %0 n2 ; ret %2",         # map2 with the outer var
             "pk P4 map f3 %0 ; map f1 %1 ; ret %2",           # chain
             "body b0 2 ret n2 | lhsconst ; ret %0",
             "pk P5 bind b0 %0 ; ret %1"]                      # bind on the value
    n_ops = rng.randint(1, 3)
    for _ in range(n_ops):
        src = rng.choice([0, 1])
        if perkey:
            fam = rng.choice([0, 0, 1, 2, 3, 3, 4, 5])
            ty = rng.choice(["bt", "ord"])
            cut = rng.choice(["none", "none", "eq", "never", "always"])
            acts.append(f"perkey {ty} {cut} P{fam} n{src}")
            count(f"perkey_P{fam}_{ty}_{cut}")
            nabs += 4
        else:
            m = nmf; nmf += 1
            # API variant of the operator (the part of the type token after the dot; the model ignores the token, the
            # harness calls the wrapper API: incr_mapi / incr_map / incr_filter_map, the ClosureFold builder).  Drawn from
            # a side generator so that the main stream (and every seed recorded so far) is unchanged.
            rng2 = random.Random(hash(rng.getstate()[1]))
            api = rng2.choice(["", "", "mapi", "map", "fmap"])
            p3 = 9 if api in ("mapi", "map") and rng2.random() < 0.9 else None     # these need a family that never filters
            mfn = [rng.randint(1, 2), rng.randint(0, 1), rng.choice([2, 3]), rng.randint(0, 1), rng.randint(0, 3)]
            if p3 is not None:
                mfn[3] = p3
            defs.append("mfn M%d %d %d %d %d %d" % (m, *mfn))
            kind = rng.choice(["fm", "fm", "fold", "fold", "merge", "part"])
            if kind == "fm":
                ty = rng.choice(['bt', 'rc', 'ord'])
                acts.append(f"mapop fm {ty}{'.' + api if api else ''} M{m} n{src}")
                count("fm_api_" + (api or "filter_mapi"))
            elif kind == "fold":
                ty = rng.choice(['bt', 'rc', 'ord'])
                fapi = rng2.choice(["", "", "cf", "cfn"])
                acts.append(f"mapop fold {ty}{'.' + fapi if fapi else ''} M{m} {rng.randint(0, 1)} {rng.randint(0, 1)} n{src}")
                count("fold_api_" + (fapi or "direct"))
            elif kind == "merge":
                acts.append(f"mapop merge {rng.choice(['bt', 'ord'])} M{m} n0 n1")
            else:
                acts.append(f"mapop part M{m} n{src}")
            count("mapop_" + kind)
            if kind == "merge":
                nabs += 5         # its zip node is internal to incr_merge: no user handle
            else:
                inputs.append(nabs); nabs += 3
        outs.append(nodes)
        nodes += 1
    obs = []          # (observer index, alive)
    def observe(o):
        acts.append(f"observe n{o}")
        obs.append([o, True])
    for o in outs:
        observe(o)
    acts.append("stabilise")
    for _ in range(rng.randint(4, 14)):
        r = rng.random()
        if r < 0.55:
            v = rng.choice([0, 1])
            maps[v] = edit_map(rng, maps[v])
            acts.append(f"set v{v} {fmt_vmap(maps[v])}")
            count("set_map")
        elif r < 0.65:
            acts.append(f"set v2 {rng.randint(0, 4)}")
            count("set_outer")
        elif r < 0.75:
            live = [i for i, (o, a) in enumerate(obs) if a]
            if live:
                i = rng.choice(live)
                acts.append(f"disallow o{i}")
                obs[i][1] = False
                count("unobserve")
        elif r < 0.85:
            observe(rng.choice(outs))
            count("reobserve")
        acts.append("stabilise") if rng.random() < 0.7 else None
    if rng.random() < 0.35:
        # an operator recomputes on an input EQUAL to the one it last saw: its outputs are unobserved while the input
        # (kept alive by a direct observer) changes and changes back; then it is observed again and one key is edited
        acts.append("stabilise")
        for v in inputs:
            acts.append(f"observe #{v}")      # the operator's input node: a user program holds a handle of it
            obs.append([None, True])
        for i, (o, a) in enumerate(obs):
            if a and o in outs:
                acts.append(f"disallow o{i}")
                obs[i][1] = False
        acts.append("stabilise")
        v = rng.choice([0, 1])
        keep = dict(maps[v])
        away = edit_map(rng, keep)
        acts.append(f"set v{v} {fmt_vmap(away)}")
        acts.append("stabilise")
        acts.append(f"set v{v} {fmt_vmap(keep)}")
        acts.append("stabilise")
        for o in outs:
            observe(o)
        acts.append("stabilise")
        k = rng.randint(1, 6)
        maps[v] = dict(keep); maps[v][k] = (keep.get(k, 0) + 1) % 4
        acts.append(f"set v{v} {fmt_vmap(maps[v])}")
        acts.append("stabilise")
        count("roundtrip_unobserved")
    acts.append("stabilise")
    acts.append("dropall")
    return "\n".join(lines + defs + acts) + "\n", stats


def gen_memo(rng, debug=True):
    """C20/C12: memoised function called from top level and from (nested) bind bodies; handles dropped; bind re-runs"""
    stats = {}
    def count(k):
        stats[k] = stats.get(k, 0) + 1
    lines = [f"cfg {'debug' if debug else 'release'}"]
    defs = ["fn f0 lin 7 0 1 2", "fn f1 lin 7 1 1", "fn f2 lin 7 0 1 1",
            "memo m0 lhsconst ; map f0 n0 %0 ; ret %1",
            "memo m1 lhsconst ; map f1 %0 ; map f2 %1 n1 ; ret %2",
            "body b0 3 memocall m0 1 ; ret %0 | memocall m0 2 ; map f1 %0 ; ret %1 | memocall m1 1 ; ret %0",
            "body b1 2 memocall m0 1 ; memocall m1 2 ; map f2 %0 %1 ; ret %2 | bind b0 n1 ; ret %0"]
    acts = [f"var {rng.randint(0, 3)}", f"var {rng.randint(0, 3)}"]
    nodes = 2
    tops = []          # (ordinal, kind, dropped)
    obs = 0
    for _ in range(rng.randint(6, 20)):
        r = rng.random()
        if r < 0.25:
            acts.append(f"memocall m{rng.choice([0, 1])} {rng.randint(1, 3)}")
            tops.append([nodes, "memo", False]); nodes += 1
            count("memocall_top")
        elif r < 0.4:
            acts.append(f"bind b{rng.choice([0, 1])} n{rng.choice([0, 1])}")
            tops.append([nodes, "bind", False]); nodes += 1
            count("bind")
        elif r < 0.55:
            live = [t for t in tops if not t[2]]
            if live:
                t = rng.choice(live)
                acts.append(f"observe n{t[0]}")
                obs += 1
                count("observe")
        elif r < 0.65:
            if obs:
                acts.append(f"dropobs o{rng.randrange(obs)}")
                count("dropobs")
        elif r < 0.75:
            live = [t for t in tops if not t[2]]
            if live:
                t = rng.choice(live)
                acts.append(f"drophandle n{t[0]}")
                t[2] = True
                count("drophandle")
        elif r < 0.9:
            acts.append(f"set v{rng.choice([0, 1])} {rng.randint(0, 3)}")
            count("set")
        acts.append("stabilise") if rng.random() < 0.5 else None
    acts.append("stabilise")
    acts.append("dropall")
    return "\n".join(lines + defs + acts) + "\n", stats


def gen_limits(rng, debug=True):
    """C19: height limits around N, reconfiguration at quiescent points, and the misuse stream"""
    stats = {}
    def count(k):
        stats[k] = stats.get(k, 0) + 1
    N = rng.randint(1, 12)
    lines = [f"cfg {'debug' if debug else 'release'}", f"maxheight {N}"]
    defs, acts = [], []
    nfn = [0]
    def fn(ar):
        f = nfn[0]; nfn[0] += 1
        defs.append(f"fn f{f} lin 7 0 " + " ".join("1" for _ in range(ar)))
        return f
    variant = rng.choice(["chain", "chain", "reconf", "bindchain", "cycle1", "cycle2", "cycle3", "cycle4", "nested_fn", "nested_hdl"])
    count("limits_" + variant)
    if variant.startswith("nested") and N < 3:
        N = 3
        lines[1] = f"maxheight {N}"
    nodes = 0
    def var():
        nonlocal nodes
        acts.append(f"var {rng.randint(0, 3)}"); nodes += 1; return nodes - 1
    def chain(src, k):
        nonlocal nodes
        last = src
        for _ in range(k):
            ar = rng.choice([1, 1, 2])
            f = fn(ar)
            acts.append(f"map f{f} " + " ".join(f"n{last}" for _ in range(ar))); nodes += 1; last = nodes - 1
        return last
    if variant in ("chain", "reconf"):
        x = var()
        k = max(0, N + rng.choice([-2, -1, -1, 0]))       # top height k + 1
        top = chain(x, k)
        acts.append(f"observe n{top}")
        acts.append("stabilise")
        if variant == "reconf":
            for _ in range(rng.randint(1, 4)):
                M = max(1, (k + 1) + rng.choice([-2, -1, 0, 0, 1, 2, 3]))
                rng2 = random.Random(hash(rng.getstate()[1]))          # side stream
                pending = rng2.random() < 0.5
                if pending:
                    # work is already queued when the limit changes (seeded change c19-rch-lower-bound-reset-on-resize)
                    acts.append(f"set v0 {rng2.randint(4, 9)}")
                    count("limits_reconf_with_pending_work")
                acts.append(f"setmaxheight {M}")
                if pending and rng2.random() < 0.6:
                    acts.append("stabilise")
                    acts.append("isstable")
                if rng.random() < 0.6:
                    ext = rng.randint(0, 3)
                    top = chain(top, ext)
                    k += ext
                    acts.append(f"observe n{top}")
                    if rng.random() < 0.5:
                        acts.append(f"set v0 {rng.randint(0, 3)}")
                    acts.append("stabilise")
        else:
            acts.append(f"set v0 {rng.randint(0, 3)}")
            acts.append("stabilise")
            if rng.random() < 0.5:
                top = chain(top, rng.randint(1, 2))
                acts.append(f"observe n{top}")
                acts.append("stabilise")
        acts.append("dropall")
    elif variant == "bindchain":
        x = var(); y = var()
        k = max(0, N - rng.randint(1, 4))
        top = chain(y, k)
        f = fn(1)
        defs.append(f"body b0 2 ret n{top} | map f{f} n{top} ; ret %0")
        acts.append(f"bind b0 n{x}"); nodes += 1; m = nodes - 1
        m = chain(m, rng.randint(0, 2))
        acts.append(f"observe n{m}")
        acts.append("stabilise")
        acts.append(f"set v0 {rng.randint(0, 3)}")
        acts.append("stabilise")
        acts.append("dropall")
    elif variant in ("cycle1", "cycle2"):
        x = var()
        if variant == "cycle1":
            # n1 = bind(x) returning a node computed from n1 itself
            acts.append(f"bind b0 n{x}"); nodes += 1
            top = chain(nodes - 1, rng.randint(1, 3))
            defs.append(f"body b0 1 ret n{top}")
        else:
            y = var()
            acts.append(f"bind b0 n{x}"); nodes += 1; m0 = nodes - 1
            acts.append(f"bind b1 n{y}"); nodes += 1; m1 = nodes - 1
            a = chain(m0, 1); b = chain(m1, 1)
            defs.append(f"body b0 1 ret n{b}"); defs.append(f"body b1 1 ret n{a}")
            top = a
        acts.append(f"observe n{top}")
        acts.append("expectpanic cyclic height-limit")
        acts.append("stabilise")
        acts.append("dropall")
    elif variant == "cycle3":
        # B0 = bind(v) returns a constant or the node that B1's closure built; B1 = bind(B0): the second choice closes
        # a cycle whose way back is the scope edge (change detector of B1 -> node built on B1's right-hand side)
        if N < 6:
            N = 6
            lines[1] = f"maxheight {N}"
        v = var()
        acts.append("const 1"); nodes += 1; c = nodes - 1
        defs.append(f"body b0 2 ret n{c} | ret @s0")
        acts.append(f"bind b0 n{v}"); nodes += 1; m0 = nodes - 1
        f = fn(1)
        defs.append(f"body b1 1 map f{f} n{c} ; pub s0 %0 ; ret %0")
        acts.append(f"bind b1 n{m0}"); nodes += 1; m1 = nodes - 1
        acts[0] = "var 0"
        acts.append(f"observe n{m1}")
        acts.append("stabilise")
        acts.append("set v0 1")
        acts.append("expectpanic cyclic height-limit")
        acts.append("stabilise")
        acts.append("dropall")
    elif variant == "cycle4":
        # the cycle of cycle3, closed while the change detector of B1 is QUEUED: B1 is unobserved for a while, its input
        # changes, and the selector flips in the same stabilise in which B1 is observed again
        if N < 9:
            N = 9
            lines[1] = f"maxheight {N}"
        v = var()
        base = var()
        defs.append(f"body b0 2 ret n{base} | ret @s0")
        acts.append(f"bind b0 n{v}"); nodes += 1; m0 = nodes - 1
        f = fn(1)
        defs.append(f"body b1 1 lhsconst ; map f{f} %0 ; pub s0 %1 ; ret %1")
        acts.append(f"bind b1 n{m0}"); nodes += 1; m1 = nodes - 1
        acts[0] = "var 0"
        acts.append(f"observe n{m1}")
        acts.append(f"observe n{m0}")
        acts.append("stabilise")
        acts.append("disallow o0")
        acts.append("stabilise")
        acts.append(f"modify v1 {rng.randint(1, 3)}")
        acts.append("stabilise")
        acts.append("set v0 1")
        acts.append(f"observe n{m1}")
        acts.append("expectpanic cyclic height-limit")
        acts.append("stabilise")
        acts.append("dropall")
    elif variant == "nested_fn":
        x = var()
        f = fn(1)
        defs.append(f"fneff f{f} stab")
        acts.append(f"map f{f} n{x}"); nodes += 1
        acts.append(f"observe n{nodes - 1}")
        acts.append("expectpanic status")
        acts.append("stabilise")
        acts.append("dropall")
    else:
        x = var()
        defs.append("hdl h5 stab")
        acts.append(f"observe n{x}")
        acts.append("subscribe o0 h5")
        acts.append("expectpanic status")
        acts.append("stabilise")
        acts.append("dropall")
    return "\n".join(lines + defs + acts) + "\n", stats


def gen_history(seed, profile="general", n_actions=None, c01_safe=False, debug=True):
    rng = random.Random(seed)
    if profile == "limits":
        return gen_limits(rng, debug)
    if profile == "maps":
        return gen_maps(rng, debug, perkey=False)
    if profile == "perkey":
        return gen_maps(rng, debug, perkey=True)
    if profile == "memo":
        return gen_memo(rng, debug)
    g = Gen(rng, profile, c01_safe)
    if n_actions is None:
        n_actions = rng.choice([8, 15, 25, 40, 60])
    text = g.build(n_actions)
    head = f"cfg {'debug' if debug else 'release'}\n"
    return head + text, g.stats
