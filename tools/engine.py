"""Running engine histories on both sides (Rust harness on /repo, Lean driver) and comparing traces."""
import os
import re
import subprocess
import sys
import tempfile
from concurrent.futures import ThreadPoolExecutor

sys.path.insert(0, os.path.dirname(os.path.abspath(__file__)))
import common  # noqa: E402
import gen_engine  # noqa: E402


def run_side(cmd, text, timeout=120):
    try:
        p = subprocess.run(cmd, input=text, text=True, stdout=subprocess.PIPE, stderr=subprocess.PIPE,
                           timeout=timeout, env=common.ENV)
    except subprocess.TimeoutExpired:
        return None, "timeout"
    if p.returncode != 0:
        return p.stdout.split("\n"), f"exit {p.returncode}: {p.stderr[-500:]}"
    out = p.stdout.split("\n")
    if out and out[-1] == "":
        out.pop()
    return out, ""


def harness_path(profile="debug"):
    return os.path.join(common.HARNESS, "target", profile, "verif-harness")


def run_impl(text, profile="debug"):
    return run_side([harness_path(profile), "engine"], text)


def run_model(text):
    return run_side([common.DRIVER, "engine"], text)


def split_channels(lines):
    """{channel: [(action_index, payload)]} preserving order"""
    ch = {}
    for l in lines:
        parts = l.split(" ", 2)
        if len(parts) < 2:
            continue
        idx, c = parts[0], parts[1]
        payload = parts[2] if len(parts) > 2 else ""
        ch.setdefault(c, []).append((int(idx), payload))
    return ch


def canon_snap(impl_ch, model_ch):
    """Both sides list the nodes that are still allocated (the implementation: weak references of the
    registry that still upgrade; the model: `State.aliveSet`).  The lists must be equal: a node the model
    has freed but the implementation still holds is a leak (C12)."""
    impl_ch = dict(impl_ch)
    # `refs=[…]` (strong references, also of invalid nodes) is printed by the implementation only: input of holds_C12
    impl_ch["snap"] = [(idx, re.sub(r" refs=\[[^\]]*\]", "", p)) for idx, p in impl_ch.get("snap", [])]
    return impl_ch.get("snap", []), model_ch.get("snap", [])


def canon_ev(evs):
    """Handlers of one node are kept in HashMaps (per-node observers, per-observer handlers): the order in
    which the handlers of one stabilise run is not defined.  Within each action the events from the first
    `notif` on are therefore compared as a sorted block; everything before (propagation) keeps its order."""
    out, cur, idx0, tail = [], [], None, None
    def flush():
        if idx0 is None:
            return
        out.extend((idx0, p) for p in cur)
        if tail is not None:
            out.extend((idx0, p) for p in sorted(tail))
    for idx, p in evs:
        if idx != idx0:
            flush()
            cur, idx0, tail = [], idx, None
        if tail is None and p.startswith("notif "):
            tail = []
        (tail if tail is not None else cur).append(p)
    flush()
    return out


def strip_stats(payload, drop=("invalidated",)):
    return " ".join(t for t in payload.split() if t.split("=")[0] not in drop)


def compare(impl, model, channels=("api", "read", "ev", "snap", "heap", "stats", "audit"), ev_as_multiset=False):
    if "ev-propagation" in channels:
        # fault injection: WHICH handlers had run when the k-th one panics depends on HashMap order
        impl = [l for l in impl if " ev notif " not in l]
        model = [l for l in model if " ev notif " not in l]
        channels = tuple("ev" if c == "ev-propagation" else c for c in channels)
    """Returns a list of (channel, action index, impl payload, model payload) for the first difference
    of each requested channel."""
    # a dependency cycle announced as misuse (`expectpanic cyclic`) is a cycle of strong references and leaks
    # by construction: the harness then answers `ok live=cycle` where the model says `ok live=0`
    impl = [l.replace(" api ok live=cycle", " api ok live=0") for l in impl]
    ic, mc = split_channels(impl), split_channels(model)
    diffs = []
    for c in channels:
        if c == "audit":
            a = ic.get("audit", [])
            if a:
                diffs.append(("audit", a[0][0], a[0][1], ""))
            continue
        if c == "snap":
            a, b = canon_snap(ic, mc)
        elif c == "stats":
            a = [(i, strip_stats(p)) for i, p in ic.get(c, [])]
            b = [(i, strip_stats(p)) for i, p in mc.get(c, [])]
        elif c == "ev" and ev_as_multiset:
            def group(xs):
                g = {}
                for i, p in xs:
                    g.setdefault(i, []).append(p)
                return [(i, " || ".join(sorted(v))) for i, v in sorted(g.items())]
            a, b = group(ic.get(c, [])), group(mc.get(c, []))
        elif c == "ev":
            a, b = canon_ev(ic.get(c, [])), canon_ev(mc.get(c, []))
        else:
            a, b = ic.get(c, []), mc.get(c, [])
        if a != b:
            for k in range(max(len(a), len(b))):
                x = a[k] if k < len(a) else (None, "<missing>")
                y = b[k] if k < len(b) else (None, "<missing>")
                if x != y:
                    diffs.append((c, x[0] if x[0] is not None else y[0], x[1], y[1]))
                    break
    return diffs


def run_case(text, profile="debug", channels=None, ev_as_multiset=False):
    impl, ei = run_impl(text, profile)
    model, em = run_model(text)
    if impl is None or model is None or ei or em:
        return {"error": f"impl: {ei} model: {em}", "impl": impl, "model": model, "diffs": [("run", 0, ei, em)]}
    kw = {}
    if channels:
        kw["channels"] = channels
    return {"impl": impl, "model": model, "diffs": compare(impl, model, ev_as_multiset=ev_as_multiset, **kw)}


def parallel(fn, items, workers=16):
    with ThreadPoolExecutor(max_workers=workers) as ex:
        return list(ex.map(fn, items))


def shrink(text, still_fails, max_rounds=6):
    """delta-debugging on action lines (definition lines stay); `still_fails(text) -> bool`"""
    lines = text.strip().split("\n")
    def is_def(l):
        return l.split()[0] in ("cfg", "maxheight", "fn", "fneff", "folddef", "proj", "old", "cut", "body", "hdl")
    for _ in range(max_rounds):
        changed = False
        i = len(lines) - 1
        while i >= 0:
            if is_def(lines[i]):
                i -= 1
                continue
            cand = lines[:i] + lines[i + 1:]
            if still_fails("\n".join(cand) + "\n"):
                lines = cand
                changed = True
            i -= 1
        if not changed:
            break
    # drop unused definitions
    for i in range(len(lines) - 1, -1, -1):
        if is_def(lines[i]) and lines[i].split()[0] not in ("cfg", "maxheight"):
            cand = lines[:i] + lines[i + 1:]
            if still_fails("\n".join(cand) + "\n"):
                lines = cand
    return "\n".join(lines) + "\n"


def main():
    import argparse
    ap = argparse.ArgumentParser()
    ap.add_argument("cmd", choices=["fuzz", "one"])
    ap.add_argument("--profile", default="general")
    ap.add_argument("--n", type=int, default=100)
    ap.add_argument("--seed", type=int, default=1)
    ap.add_argument("--build", default="debug")
    ap.add_argument("--file")
    ap.add_argument("--channels")
    ap.add_argument("--show", type=int, default=3)
    ap.add_argument("--shrink", action="store_true")
    args = ap.parse_args()
    chans = tuple(args.channels.split(",")) if args.channels else None
    if args.cmd == "one":
        text = open(args.file).read()
        r = run_case(text, args.build, chans)
        for d in r["diffs"]:
            print(d)
        if not r["diffs"]:
            print("agree")
        return
    seeds = [args.seed * 1000003 + i for i in range(args.n)]
    def job(sd):
        text, stats = gen_engine.gen_history(sd, args.profile, debug=(args.build == "debug"))
        return sd, text, run_case(text, args.build, chans)
    res = parallel(job, seeds)
    bad = [(sd, t, r) for sd, t, r in res if r["diffs"]]
    print(f"{len(res)} histories, {len(bad)} with differences")
    kinds = {}
    for sd, t, r in bad:
        k = r["diffs"][0][0] + ":" + str(r["diffs"][0][2])[:60]
        kinds.setdefault(k, []).append(sd)
    for k, v in sorted(kinds.items(), key=lambda kv: -len(kv[1]))[:15]:
        print(f"  {len(v):4d} x {k}   e.g. seed {v[0]}")
    for sd, t, r in bad[:args.show]:
        if args.shrink:
            first = r["diffs"][0][0]
            def still(tx):
                rr = run_case(tx, args.build, chans)
                return bool(rr["diffs"]) and rr["diffs"][0][0] == first and "error" not in rr
            t = shrink(t, still)
            r = run_case(t, args.build, chans)
        print(f"--- seed {sd}")
        print(t)
        for d in r["diffs"][:4]:
            print("   DIFF", d)


if __name__ == "__main__":
    main()
