#!/usr/bin/env python3
"""How much of /repo's code do the correspondence inputs reach?

Builds the Rust harness with source-based coverage instrumentation (nightly toolchain: it ships the matching
llvm-profdata / llvm-cov), runs the SAME inputs the checks use (every generator profile of tools/gen_engine.py,
the corpus, the scripted motifs they contain, the C18 pure cases) through it, and reports line coverage of
/repo/src and /repo/incremental-map/src per file and per function, plus the list of functions never entered.

The tie between the Lean model and the crate is a differential check; its reach is bounded by what the inputs
exercise.  This tool measures that bound on the implementation side (the driver's branch counters measure it
on the model side).  It is a measurement, not a check: it never prints VIOLATION.

usage: tools/coverage.py [--n 150] [--seed 7] [--out /verif/coverage]
"""
import argparse
import json
import os
import re
import shutil
import subprocess
import sys

sys.path.insert(0, os.path.dirname(os.path.abspath(__file__)))
import common  # noqa: E402
import gen_engine  # noqa: E402
import p_c18  # noqa: E402

TOOLCHAIN = "nightly"
COVDIR = "/verif/harness/target-cov"
PROFILES = ["static", "bind", "general", "varw", "subs", "life", "expert", "maps", "perkey", "memo", "limits"]


def llvm_tool(name):
    out = subprocess.run(["rustc", f"+{TOOLCHAIN}", "--print", "sysroot"], stdout=subprocess.PIPE, text=True).stdout.strip()
    p = os.path.join(out, "lib/rustlib/x86_64-unknown-linux-gnu/bin", name)
    if not os.path.exists(p):
        sys.exit(f"{name} not found under {out} (needs the llvm-tools component of the {TOOLCHAIN} toolchain)")
    return p


def build():
    env = dict(os.environ, CARGO_NET_OFFLINE="true",
               RUSTFLAGS="--cfg cormacrelf_incremental_rs_verif -Awarnings -C instrument-coverage",
               CARGO_TARGET_DIR=COVDIR,
               # build scripts and proc macros are instrumented too: keep their profiles out of /repo
               LLVM_PROFILE_FILE=os.path.join(COVDIR, "build-%p-%m.profraw"))
    # RUSTFLAGS overrides build.rustflags of harness/.cargo/config.toml, hence the cfg is repeated here
    r = subprocess.run(["cargo", f"+{TOOLCHAIN}", "build", "--offline"], cwd=common.HARNESS, env=env,
                       stdout=subprocess.PIPE, stderr=subprocess.STDOUT, text=True)
    if r.returncode != 0:
        sys.exit("instrumented build failed:\n" + r.stdout[-3000:])
    return os.path.join(COVDIR, "debug", "verif-harness")


def main():
    ap = argparse.ArgumentParser()
    ap.add_argument("--n", type=int, default=150, help="histories per generator profile and build flavour")
    ap.add_argument("--seed", type=int, default=7)
    ap.add_argument("--out", default="/verif/coverage")
    args = ap.parse_args()
    exe = build()
    prof = os.path.join(COVDIR, "prof")
    shutil.rmtree(prof, ignore_errors=True)
    os.makedirs(prof)
    env = dict(os.environ, LLVM_PROFILE_FILE=os.path.join(prof, "h-%p-%m.profraw"))
    inputs = []
    dist = {}
    for p in PROFILES:
        for i in range(args.n):
            for dbg in (True, False):
                text, _ = gen_engine.gen_history(args.seed * 1000003 + i, p, debug=dbg)
                inputs.append(("engine", text))
        dist[p] = 2 * args.n
    ncorp = 0
    for root, _, files in os.walk("/verif/corpus"):
        for f in files:
            if f.endswith(".hist"):
                inputs.append(("engine", open(os.path.join(root, f)).read()))
                ncorp += 1
    dist["corpus"] = ncorp
    cases, n_exh, pairs, nkeys = p_c18.gen_cases("quick", args.seed)
    inputs.append(("pure", "\n".join(cases) + "\n"))
    dist["pure(C18) cases"] = len(cases)

    def job(inp):
        mode, text = inp
        try:
            r = subprocess.run([exe, mode], input=text, text=True, stdout=subprocess.DEVNULL, stderr=subprocess.DEVNULL,
                               env=env, timeout=300)
            return r.returncode
        except subprocess.TimeoutExpired:
            return -1
    from concurrent.futures import ThreadPoolExecutor
    with ThreadPoolExecutor(max_workers=12) as ex:
        rcs = list(ex.map(job, inputs))
    bad = sum(1 for r in rcs if r != 0)
    profdata = os.path.join(COVDIR, "all.profdata")
    raws = [os.path.join(prof, f) for f in os.listdir(prof)]
    lst = os.path.join(COVDIR, "raws.txt")
    open(lst, "w").write("\n".join(raws))
    subprocess.run([llvm_tool("llvm-profdata"), "merge", "-sparse", "-f", lst, "-o", profdata], check=True)
    cov = llvm_tool("llvm-cov")
    exp = subprocess.run([cov, "export", "-instr-profile", profdata, exe, "--ignore-filename-regex", r"(\.cargo|rustc|/verif/)"],
                         stdout=subprocess.PIPE, text=True, check=True).stdout
    data = json.loads(exp)["data"][0]
    files = {}
    for f in data["files"]:
        name = f["filename"]
        if not name.startswith("/repo/"):
            continue
        s = f["summary"]
        files[name[len("/repo/"):]] = {"lines": s["lines"]["count"], "lines_covered": s["lines"]["covered"],
                                        "functions": s["functions"]["count"], "functions_covered": s["functions"]["covered"],
                                        "regions": s["regions"]["count"], "regions_covered": s["regions"]["covered"]}
    # functions never entered (demangled by rustfilt-less heuristic: keep the mangled name's readable path parts)
    never = {}
    for fn in data["functions"]:
        fl = [x for x in fn["filenames"] if x.startswith("/repo/")]
        if not fl or fn["count"] != 0:
            continue
        # monomorphised copies: a function counts as never entered only if NO copy was entered -> decide by region start
        reg = fn["regions"][0]
        never.setdefault((fl[0][len("/repo/"):], reg[0]), 0)
    entered = set()
    for fn in data["functions"]:
        fl = [x for x in fn["filenames"] if x.startswith("/repo/")]
        if fl and fn["count"] != 0:
            entered.add((fl[0][len("/repo/"):], fn["regions"][0][0]))
    never_list = sorted(k for k in never if k not in entered)

    def src_line(path, line):
        try:
            return open("/repo/" + path).read().split("\n")[line - 1].strip()
        except Exception:
            return "?"
    never_out = [f"{p}:{l}: {src_line(p, l)}" for p, l in never_list
                 if not p.endswith("verif.rs") and "tests" not in p]
    tot_l = sum(v["lines"] for k, v in files.items())
    tot_c = sum(v["lines_covered"] for k, v in files.items())
    os.makedirs(args.out, exist_ok=True)
    head = subprocess.run(["git", "-C", "/repo", "rev-parse", "HEAD"], stdout=subprocess.PIPE, text=True).stdout.strip()
    summary = {"repo_head": head, "inputs": dist, "harness_runs": len(inputs), "harness_runs_nonzero_exit": bad,
               "seed": args.seed, "lines_total": tot_l, "lines_covered": tot_c,
               "line_coverage_percent": round(100.0 * tot_c / max(tot_l, 1), 1), "files": dict(sorted(files.items())),
               "functions_never_entered": never_out}
    json.dump(summary, open(os.path.join(args.out, "summary.json"), "w"), indent=1)
    # uncovered line ranges per file, for reading
    rep = subprocess.run([cov, "report", "-instr-profile", profdata, exe, "--ignore-filename-regex", r"(\.cargo|rustc|/verif/)"],
                         stdout=subprocess.PIPE, text=True).stdout
    open(os.path.join(args.out, "report.txt"), "w").write(rep)
    unc = []
    for f in data["files"]:
        name = f["filename"]
        if not name.startswith("/repo/") or name.endswith("verif.rs"):
            continue
        # segments: [line, col, count, hasCount, isRegionEntry, isGap]
        lines0 = set()
        segs = f["segments"]
        for a, b in zip(segs, segs[1:]):
            if a[3] and a[2] == 0 and not a[5]:
                for ln in range(a[0], b[0] + (1 if b[1] > 1 else 0)):
                    lines0.add(ln)
        covered = set()
        for a, b in zip(segs, segs[1:]):
            if a[3] and a[2] > 0:
                for ln in range(a[0], b[0] + (1 if b[1] > 1 else 0)):
                    covered.add(ln)
        only0 = sorted(lines0 - covered)
        rng, out = [], []
        for ln in only0:
            if rng and ln == rng[-1] + 1:
                rng.append(ln)
            else:
                if rng:
                    out.append((rng[0], rng[-1]))
                rng = [ln]
        if rng:
            out.append((rng[0], rng[-1]))
        if out:
            unc.append(name[len("/repo/"):] + ": " + " ".join(f"{a}-{b}" if a != b else str(a) for a, b in out))
    open(os.path.join(args.out, "uncovered_lines.txt"), "w").write("\n".join(unc) + "\n")
    print(f"line coverage of /repo by the correspondence inputs: {tot_c}/{tot_l} = {summary['line_coverage_percent']}%  "
          f"({len(inputs)} harness runs, {bad} non-zero exits); functions never entered: {len(never_out)}")
    for k, v in sorted(files.items()):
        print(f"  {k:45s} {v['lines_covered']:5d}/{v['lines']:5d} lines  {v['functions_covered']:4d}/{v['functions']:4d} fns")


if __name__ == "__main__":
    main()
