"""Shared machinery of the /verif checks: builds, proof-obligation audit, evidence, verdicts.

Everything here is offline and rebuilds from /repo's current working tree.
"""
import fcntl
import json
import os
import re
import subprocess
import sys
import time

VERIF = os.path.dirname(os.path.dirname(os.path.abspath(__file__)))
LEAN = os.path.join(VERIF, "lean")
HARNESS = os.path.join(VERIF, "harness")
REPO = "/repo"
DRIVER = os.path.join(LEAN, ".lake", "build", "bin", "driver")
EVIDENCE = os.path.join(VERIF, "evidence")
REPLAYS = os.path.join(VERIF, "replays")
CORPUS = os.path.join(VERIF, "corpus")
KNOWN = os.path.join(VERIF, "known_findings.json")
ALLOWED_AXIOMS = {"propext", "Classical.choice", "Quot.sound"}
FORBIDDEN = re.compile(
    r"\bsorry\b|\badmit\b|^\s*axiom\s|native_decide|bv_decide|implemented_by|\bunsafe\s|maxHeartbeats\s+0\b"
)

ENV = dict(os.environ)
ENV["CARGO_NET_OFFLINE"] = "true"
ENV.setdefault("CARGO_TERM_COLOR", "never")


class Lock:
    """serialise builds: two checks may be started at once"""

    def __init__(self, name=".build.lock"):
        self.path = os.path.join(VERIF, name)

    def __enter__(self):
        self.f = open(self.path, "w")
        fcntl.flock(self.f, fcntl.LOCK_EX)
        return self

    def __exit__(self, *a):
        fcntl.flock(self.f, fcntl.LOCK_UN)
        self.f.close()


def sh(cmd, cwd=None, timeout=None, input=None, env=None):
    p = subprocess.run(
        cmd, cwd=cwd, timeout=timeout, input=input, env=env or ENV, text=True,
        stdout=subprocess.PIPE, stderr=subprocess.PIPE,
    )
    return p.returncode, p.stdout, p.stderr


# ----------------------------------------------------------------------------------------------
# builds

def build_lean(targets):
    """lake build of the given targets (module names or `driver`). Returns (ok, log)."""
    with Lock():
        rc, out, err = sh(["lake", "build"] + list(targets), cwd=LEAN, timeout=3600)
        if rc != 0 and not re.search(r"\.lean:\d+:\d+: error|error: .*\.lean:\d+", out + err):
            # not a Lean error in a source file (a crashed compiler/linker process, a vanished object file while another
            # build was running): one more attempt
            time.sleep(5)
            rc, out, err = sh(["lake", "build"] + list(targets), cwd=LEAN, timeout=3600)
    return rc == 0, (out + err)


_harness_built = {}


def build_harness(profile="debug"):
    """cargo build of the harness against /repo's working tree, hooks on. Returns (ok, path, log)."""
    if profile in _harness_built:
        return _harness_built[profile]
    lock = os.path.join(HARNESS, "Cargo.lock")
    if not os.path.exists(lock):
        import shutil
        shutil.copy(os.path.join(REPO, "Cargo.lock"), lock)
    cmd = ["cargo", "build", "--offline"]
    if profile == "release":
        cmd.append("--release")
    with Lock():
        rc, out, err = sh(cmd, cwd=HARNESS, timeout=3600)
    path = os.path.join(HARNESS, "target", profile, "verif-harness")
    res = (rc == 0 and os.path.exists(path), path, out + err)
    _harness_built[profile] = res
    return res


# ----------------------------------------------------------------------------------------------
# proof obligations

def strip_comments(src):
    # remove /- ... -/ (nested not handled beyond one level, good enough for our sources) and -- ...
    out = []
    i, n, depth = 0, len(src), 0
    while i < n:
        if src.startswith("/-", i):
            depth += 1
            i += 2
        elif depth and src.startswith("-/", i):
            depth -= 1
            i += 2
        elif depth:
            if src[i] == "\n":
                out.append("\n")
            i += 1
        elif src.startswith("--", i):
            while i < n and src[i] != "\n":
                i += 1
        else:
            out.append(src[i])
            i += 1
    return "".join(out)


def lean_sources():
    res = []
    for root, _dirs, files in os.walk(LEAN):
        if ".lake" in root:
            continue
        for f in files:
            if f.endswith(".lean"):
                res.append(os.path.join(root, f))
    return sorted(res)


def import_closure(modules):
    """Source files of `modules`, of the driver (Main.lean) and of everything of this project they import,
    transitively.  A file nothing here imports cannot contribute to these theorems (and `#print axioms` would
    show `sorryAx` anyway); scanning only the closure keeps one property's check independent of work in
    progress on another property's proof file."""
    def imports_of(path):
        return [mm.group(1) for mm in (re.match(r"\s*import\s+(\S+)", l) for l in open(path).read().split("\n")) if mm]
    seen = {}
    main = os.path.join(LEAN, "Main.lean")
    todo = list(modules) + (imports_of(main) if os.path.exists(main) else [])
    while todo:
        m = todo.pop()
        if m in seen or not m.startswith("IncrVerif"):
            continue
        path = os.path.join(LEAN, *m.split(".")) + ".lean"
        if not os.path.exists(path):
            continue
        seen[m] = path
        todo.extend(imports_of(path))
    res = set(seen.values())
    if os.path.exists(main):
        res.add(main)
    return sorted(res)


def forbidden_hits(modules=None):
    hits = []
    for path in (import_closure(modules) if modules else lean_sources()):
        body = strip_comments(open(path).read())
        for ln, line in enumerate(body.split("\n"), 1):
            if FORBIDDEN.search(line):
                hits.append(f"{os.path.relpath(path, LEAN)}:{ln}: {line.strip()[:120]}")
    return hits


def theorems_of(module_path):
    """Fully qualified names of the theorems declared in a Props file (namespace-aware)."""
    src = strip_comments(open(module_path).read())
    ns = []
    names = []
    for line in src.split("\n"):
        m = re.match(r"\s*namespace\s+(\S+)", line)
        if m:
            ns.append(m.group(1))
            continue
        m = re.match(r"\s*end\s+(\S+)", line)
        if m and ns and ns[-1] == m.group(1):
            ns.pop()
            continue
        m = re.match(r"\s*(?:private\s+|protected\s+)?theorem\s+(\S+)", line)
        if m:
            names.append(".".join(ns + [m.group(1)]))
    return names


def proof_obligations(prop, modules):
    """Build the property's theorem modules and audit them.

    Returns dict(ok, obligations, discharged, theorems, failures, log, checker_cmd).
    """
    res = {"ok": False, "obligations": 0, "discharged": 0, "theorems": [], "failures": [],
           "checker_cmd": "cd /verif/lean && lake build " + " ".join(modules)
                          + " && lake env lean <generated #print axioms file>"}
    if os.environ.get("VERIF_DEV_SKIP_PROOFS") == "1":
        # development aid for tools/seedtest.sh while the Lean build directory is being rebuilt: the proof stage is
        # skipped and SAYS so (the evidence then shows 0 obligations).  Never set by a registered command.
        res["ok"] = True
        res["log"] = "proof stage skipped (VERIF_DEV_SKIP_PROOFS=1)"
        return res
    ok, log = build_lean(modules)
    res["log"] = log[-4000:]
    thms = []
    for m in modules:
        path = os.path.join(LEAN, m.replace(".", "/") + ".lean")
        if os.path.exists(path):
            thms += theorems_of(path)
    res["theorems"] = thms
    res["obligations"] = len(thms)
    if not ok:
        # which theorem failed?  take the first error location
        errs = re.findall(r"error: (\S+?\.lean:\d+:\d+: .*)", log)
        res["failures"].append("lake build failed: " + ("; ".join(errs[:3]) if errs else log[-300:]))
        return res
    hits = forbidden_hits(modules)
    if hits:
        res["failures"].append("forbidden construct in Lean sources: " + "; ".join(hits[:5]))
    # axioms audit
    audit = os.path.join(LEAN, ".lake", f"audit_{prop}.lean")
    os.makedirs(os.path.dirname(audit), exist_ok=True)
    with open(audit, "w") as f:
        for m in modules:
            f.write(f"import {m}\n")
        for t in thms:
            f.write(f"#print axioms {t}\n")
    rc, out, err = sh(["lake", "env", "lean", audit], cwd=LEAN, timeout=1800)
    text = out + err
    discharged = 0
    for t in thms:
        m = re.search(r"'" + re.escape(t) + r"' (does not depend on any axioms|depends on axioms: \[([^\]]*)\])", text)
        if not m:
            res["failures"].append(f"no axiom report for {t}")
            continue
        axs = set(a.strip() for a in (m.group(2) or "").split(",") if a.strip())
        bad = axs - ALLOWED_AXIOMS
        if bad:
            res["failures"].append(f"{t} depends on {sorted(bad)}")
        else:
            discharged += 1
    if rc != 0:
        res["failures"].append("axiom audit failed to run: " + text[-300:])
    res["discharged"] = discharged
    # thorough tier: Lean's independent re-checker replays the compiled declarations of the property modules
    if os.environ.get("VERIF_TIER_EFFECTIVE") == "thorough":
        okc, outc = leanchecker(modules)
        res["leanchecker"] = "ok" if okc else outc[-400:]
        res["checker_cmd"] += " && lake env leanchecker " + " ".join(modules)
        if not okc:
            res["failures"].append("leanchecker rejects " + " ".join(modules) + ": " + outc[-300:])
    res["ok"] = not res["failures"] and discharged == len(thms) and len(thms) > 0
    return res


def leanchecker(modules):
    rc, out, err = sh(["lake", "env", "leanchecker"] + list(modules), cwd=LEAN, timeout=3600)
    return rc == 0, (out + err)[-2000:]


# ----------------------------------------------------------------------------------------------
# running the two sides

def run_lines(cmd, lines, timeout=600):
    """Feed lines to a line-protocol process, return list of output lines (or None + diagnostics)."""
    data = "\n".join(lines) + "\n"
    try:
        p = subprocess.run(cmd, input=data, text=True, stdout=subprocess.PIPE,
                           stderr=subprocess.PIPE, timeout=timeout, env=ENV)
    except subprocess.TimeoutExpired:
        return None, "timeout"
    out = p.stdout.split("\n")
    if out and out[-1] == "":
        out.pop()
    return out, (p.stderr[-2000:] if p.returncode != 0 else "")


def chunks(lst, n):
    k = max(1, (len(lst) + n - 1) // n)
    return [lst[i:i + k] for i in range(0, len(lst), k)]


def parallel_run_lines(cmd, lines, workers=16, timeout=600):
    """Split the cases over `workers` processes; returns the concatenated outputs (same order)."""
    from concurrent.futures import ThreadPoolExecutor
    parts = chunks(lines, workers)
    with ThreadPoolExecutor(max_workers=workers) as ex:
        results = list(ex.map(lambda part: run_lines(cmd, part, timeout), parts))
    out = []
    for part, (o, diag) in zip(parts, results):
        if o is None or len(o) != len(part):
            return None, f"process failure: {diag} (got {0 if o is None else len(o)} lines for {len(part)})"
        out += o
    return out, ""


# ----------------------------------------------------------------------------------------------
# known findings

def load_known():
    if not os.path.exists(KNOWN):
        return {"findings": [], "fixed": []}
    return json.load(open(KNOWN))


# ----------------------------------------------------------------------------------------------
# verdict + evidence

class Check:
    def __init__(self, prop, tier, seed):
        self.prop = prop
        self.tier = tier
        self.seed = seed
        self.t0 = time.time()
        self.violations = []          # (kind, description, replay_path, no_input)
        self.known_hits = []
        self.coverage = {}
        self.assumptions = []
        self.notes = {}
        os.makedirs(EVIDENCE, exist_ok=True)
        os.makedirs(REPLAYS, exist_ok=True)

    def replay_path(self, tag):
        return os.path.join(REPLAYS, f"{self.prop}_{tag}.txt")

    def write_replay(self, tag, text):
        p = self.replay_path(tag)
        with open(p, "w") as f:
            f.write(text if text.endswith("\n") else text + "\n")
        return p

    def violation(self, what, replay, no_input=False):
        self.violations.append((what, replay, no_input))

    def known(self, what):
        if what not in self.known_hits:
            self.known_hits.append(what)

    def finish(self, proof):
        cov = dict(self.coverage)
        cov.setdefault("obligations", proof["obligations"])
        cov.setdefault("discharged", proof["discharged"])
        cov.setdefault("checker_cmd", proof["checker_cmd"])
        cov.setdefault("trusted_base", [
            "Lean 4.33.0 kernel; axioms allowed: propext, Classical.choice, Quot.sound (audited by #print axioms on every run)",
            "hand-written Lean model; fidelity checked by differential execution against /repo (this run), not proved",
            "Rust harness + cfg(cormacrelf_incremental_rs_verif) hooks, Python generator/comparator, rustc/cargo, Lean compiler for the driver",
        ])
        cov["theorems"] = proof["theorems"]
        cov["proof_failures"] = proof["failures"]
        ev = {
            "property_id": self.prop,
            "tier": self.tier,
            "seed": self.seed,
            "level": "proof",
            "coverage": cov,
            "assumptions": self.assumptions,
            "wall_s": round(time.time() - self.t0, 2),
            "violations": len(self.violations),
            "known_findings_hit": self.known_hits,
        }
        ev.update(self.notes)
        with open(os.path.join(EVIDENCE, f"{self.prop}.json"), "w") as f:
            json.dump(ev, f, indent=1, sort_keys=True)
            f.write("\n")
        for k in self.known_hits:
            print(f"KNOWN-FINDING: property={self.prop} {k}")
        if self.violations:
            # concrete inputs first
            self.violations.sort(key=lambda v: v[2])
            for what, replay, no_input in self.violations[:5]:
                print(f"# {what}")
            what, replay, no_input = self.violations[0]
            tail = " no-failing-input-found" if no_input else ""
            print(f"VIOLATION property={self.prop} replay={replay}{tail}")
            return 1
        print(f"OK property={self.prop} tier={self.tier} obligations={cov['obligations']} "
              f"discharged={cov['discharged']} evaluations={cov.get('evaluations')} wall={ev['wall_s']}s")
        return 0
